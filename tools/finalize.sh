#!/bin/sh
# Regenerates MANIFEST.json, runs every quick check in /verif against /repo (so that the committed evidence comes from this
# tree) and validates MANIFEST / evidence against the schemas.  Usage: tools/finalize.sh [seed]
cd "$(dirname "$0")/.." || exit 2
SEED="${1:-0}"
/venv/bin/python tools/gen_manifest.py || exit 2
rc=0
for p in C01 C02 C03 C04 C05 C06 C07 C08 C09 C10 C11 C12 C13 C14 C15 C16 C17 C18 C19 C20; do
    VERIF_SEED=$SEED ./check $p --tier quick > /tmp/finalize_$p.log 2>&1
    r=$?
    tail -1 /tmp/finalize_$p.log | cut -c1-160
    grep "^KNOWN-FINDING" /tmp/finalize_$p.log | cut -c1-160
    [ $r -ne 0 ] && rc=1
    rm -f /tmp/finalize_$p.log
done
python3-vt - <<'PY' || rc=1
import json, glob, jsonschema
ms = json.load(open('/root/.vp/MANIFEST.schema.json')); es = json.load(open('/root/.vp/EVIDENCE.schema.json'))
m = json.load(open('MANIFEST.json')); jsonschema.validate(m, ms)
ids = [c['property_id'] for c in m['checks']]
assert len(ids) == 20 and len(set(ids)) == 20, ids
for f in sorted(glob.glob('evidence/*.json')):
    e = json.load(open(f)); jsonschema.validate(e, es)
    assert e['coverage']['samples'], f
    assert e['coverage']['distinct_nontrivial'] <= e['coverage']['evaluations'], f
print("MANIFEST and %d evidence files validate" % len(glob.glob('evidence/*.json')))
PY
exit $rc
