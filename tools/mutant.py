#!/venv/bin/python
"""Run a check against a scratch copy of /repo with a patch applied.

  tools/mutant.py run PATCH ID [--tier quick]      one patch, one property
  tools/mutant.py sweep [--only ID] [--match REGEX] [--tier quick] [--jobs 3]   every selftest/mutants/*.patch and seeded/*/patch.diff

Scratch copies live under $TMPDIR (outside /repo and /verif) and are removed
afterwards.  Evidence / replay files of these runs go into the scratch copy, so
the committed evidence is not touched.
"""
import concurrent.futures
import glob
import json
import os
import re
import shutil
import subprocess
import sys
import tempfile

HERE = os.path.dirname(os.path.dirname(os.path.abspath(__file__)))


def run_one(patch, pid, tier="quick", seed="0", keep=False):
    scratch = tempfile.mkdtemp(prefix="vpmut_")
    try:
        tree = os.path.join(scratch, "repo")
        subprocess.check_call(["rsync", "-a", "--exclude", ".git", "--exclude", "__pycache__", "/repo/", tree + "/"])
        p = subprocess.run(["patch", "-p1", "-s", "-i", os.path.abspath(patch)], cwd=tree, stdout=subprocess.PIPE, stderr=subprocess.STDOUT)
        if p.returncode != 0:
            return {"patch": patch, "property": pid, "status": "patch-failed", "detail": p.stdout.decode()[-400:]}
        env = dict(os.environ)
        env.update({"VERIF_REPO_ROOT": tree, "VERIF_EVIDENCE_DIR": os.path.join(scratch, "ev"), "VERIF_REPLAY_DIR": os.path.join(scratch, "rp"),
                    "VERIF_SEED": str(seed)})
        r = subprocess.run([os.path.join(HERE, "check"), pid, "--tier", tier], cwd=HERE, env=env, stdout=subprocess.PIPE, stderr=subprocess.STDOUT)
        out = r.stdout.decode("utf-8", "replace")
        mech = re.findall(r"violations by mechanism: (\{.*\})", out)
        first = re.findall(r"violation mechanism=(\S+)", out)
        status = {0: "MISSED (held)", 1: "caught", 2: "inconclusive"}.get(r.returncode, "rc=%d" % r.returncode)
        return {"patch": patch, "property": pid, "status": status, "mechanisms": mech[0][:300] if mech else (first[:3] if first else ""),
                "tail": out[-600:] if r.returncode not in (0, 1) else ""}
    finally:
        if not keep:
            shutil.rmtree(scratch, ignore_errors=True)


def all_patches(only=None):
    out = []
    for p in sorted(glob.glob(os.path.join(HERE, "selftest", "mutants", "*.patch"))):
        pid = os.path.basename(p).split("_")[0].upper()
        out.append((p, pid))
    for meta in sorted(glob.glob(os.path.join(HERE, "seeded", "*", "meta.json"))):
        with open(meta) as f:
            m = json.load(f)
        out.append((os.path.join(os.path.dirname(meta), "patch.diff"), m["property"]))
    if only:
        out = [x for x in out if x[1] in only]
    return out


def main():
    a = sys.argv[1:]
    tier = a[a.index("--tier") + 1] if "--tier" in a else "quick"
    seed = a[a.index("--seed") + 1] if "--seed" in a else "0"
    if a and a[0] == "run":
        r = run_one(a[1], a[2].upper(), tier, seed)
        print(json.dumps(r, indent=1))
        return 0 if r["status"] == "caught" else 1
    only = None
    if "--only" in a:
        only = set(x.upper() for x in a[a.index("--only") + 1].split(","))
    jobs = int(a[a.index("--jobs") + 1]) if "--jobs" in a else 3
    todo = all_patches(only)
    if "--match" in a:
        rx = re.compile(a[a.index("--match") + 1])
        todo = [t for t in todo if rx.search(os.path.relpath(t[0], HERE))]
    missed = 0
    with concurrent.futures.ThreadPoolExecutor(jobs) as ex:
        for r in ex.map(lambda x: run_one(x[0], x[1], tier, seed), todo):
            name = os.path.relpath(r["patch"], HERE)
            print("%-62s %-4s %-16s %s" % (name, r["property"], r["status"], r.get("mechanisms") or r.get("detail") or r.get("tail", "")[-200:]))
            sys.stdout.flush()
            if r["status"] != "caught":
                missed += 1
    print("%d patches, %d not caught" % (len(todo), missed))
    return 1 if missed else 0


if __name__ == "__main__":
    sys.exit(main())
