#!/venv/bin/python
"""Print the markdown table of appendix B (seeded changes and the check that catches them).

  tools/appendix_b.py SWEEP_LOG [ROUND]

SWEEP_LOG is the output of `tools/mutant.py sweep`; ROUND (1 or 2) selects the seeded changes by meta.json "round".
"""
import ast
import glob
import json
import os
import re
import sys

HERE = os.path.dirname(os.path.dirname(os.path.abspath(__file__)))


def main():
    log = open(sys.argv[1]).read().splitlines()
    rnd = int(sys.argv[2]) if len(sys.argv) > 2 else None
    res = {}
    for line in log:
        m = re.match(r"(seeded/(\w+)/patch\.diff)\s+(C\d\d)\s+(caught|MISSED \(held\)|inconclusive|\S+)\s*(.*)$", line)
        if m:
            res[m.group(2)] = (m.group(4), m.group(5))
    print("| id | change (author's summary, shortened) | needs in order to manifest | caught by the check of its property as |")
    print("|---|---|---|---|")
    for meta in sorted(glob.glob(os.path.join(HERE, "seeded", "*", "meta.json"))):
        with open(meta) as f:
            m = json.load(f)
        if rnd is not None and m.get("round", 1) != rnd:
            continue
        status, mech = res.get(m["id"], ("not run", ""))
        names = []
        try:
            d = ast.literal_eval(mech) if mech.startswith("{") else None
            if d is None and mech.startswith("{"):
                raise ValueError
            names = list(d)[:2] if d else []
        except Exception:
            names = re.findall(r"'([a-z0-9-]+)':", mech)[:2]
        cell = ", ".join(names) if status == "caught" else "**%s**" % status

        def short(t, n):
            t = " ".join(str(t).split()).replace("|", "\\|")
            return t[:n]
        print("| %s | %s | %s | %s |" % (m["id"], short(m["summary"], 140), short(m["needs_to_manifest"], 150), cell))


if __name__ == "__main__":
    main()
