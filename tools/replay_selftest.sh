#!/bin/sh
# usage: tools/replay_selftest.sh   (PROPS="06 11" to restrict); scratch copies under /var/tmp are removed afterwards
# for each property: one mutant, produce a replay file, replay it on the mutated tree (expect rc 1) and on the clean tree (expect rc 0)
cd "$(dirname "$0")/.."
HERE=$(pwd)
for p in ${PROPS:-01 02 03 04 05 06 07 08 09 10 11 12 13 14 15 16 17 18 19 20}; do
  pid=C$p
  patch=$(ls selftest/mutants/c${p}_*.patch | head -1)
  d=/var/tmp/rt_$pid; rm -rf $d; mkdir -p $d
  rsync -a --exclude .git --exclude __pycache__ /repo/ $d/repo/
  (cd $d/repo && patch -p1 -s -i $HERE/$patch) || { echo "$pid patch failed"; continue; }
  VERIF_REPO_ROOT=$d/repo VERIF_EVIDENCE_DIR=$d/ev VERIF_REPLAY_DIR=$d/rp ./check $pid > $d/out.txt 2>&1
  rp=$(grep -o "replay=.*" $d/out.txt | head -1 | cut -d= -f2)
  if [ -z "$rp" ]; then echo "$pid: no replay produced ($(tail -1 $d/out.txt | cut -c1-100))"; rm -rf $d; continue; fi
  VERIF_REPO_ROOT=$d/repo VERIF_EVIDENCE_DIR=$d/ev VERIF_REPLAY_DIR=$d/rp2 ./check $pid --replay $rp > $d/r1.txt 2>&1; rc1=$?
  VERIF_EVIDENCE_DIR=$d/ev VERIF_REPLAY_DIR=$d/rp3 ./check $pid --replay $rp > $d/r2.txt 2>&1; rc2=$?
  echo "$pid $(basename $patch): replay on mutated rc=$rc1, on clean rc=$rc2 $( [ $rc1 -ne 1 -o $rc2 -ne 0 ] && tail -1 $d/r1.txt | cut -c1-300; [ $rc2 -ne 0 ] && tail -1 $d/r2.txt | cut -c1-300)"
  rm -rf $d
done
