#!/venv/bin/python
"""Validate seeded breaking changes delivered by independent sub-agents.

For every /tmp/seed_CNN_out/{A,B}: scratch copy of /repo under /var/tmp, demo.py must exit 0 on the clean copy and 1 on
the patched copy, and the repository's suite (the BASELINE command) must still pass every stable_pass test with the patch.
The suite runs in a private mount namespace with its own /tmp so that several runs do not disturb each other.
Results are written to /verif/seeded/<id>/meta.json (+ patch.diff, demo.py)."""
import concurrent.futures
import json
import os
import shutil
import subprocess
import sys
import tempfile
import xml.etree.ElementTree as ET

BASE = json.load(open("/root/.vp/BASELINE.json"))
STABLE = set(BASE["stable_pass"])
SCR = "/var/tmp/vpseed"


def sh(cmd, **kw):
    return subprocess.run(cmd, stdout=subprocess.PIPE, stderr=subprocess.STDOUT, **kw)


PREFIX = os.environ.get("SEED_PREFIX", "/tmp/seed_")
VARMAP = dict(x.split(":") for x in os.environ.get("SEED_VARMAP", "A:A,B:B").split(","))


def one(pid, var):
    src = "%s%s_out/%s" % (PREFIX, pid, var)
    sid = "%s%s" % (pid, VARMAP[var])
    
    res = {"id": sid, "property": pid, "src": src}
    if not os.path.exists(os.path.join(src, "patch.diff")):
        res["status"] = "missing"
        return res
    work = os.path.join(SCR, sid)
    shutil.rmtree(work, ignore_errors=True)
    os.makedirs(work)
    try:
        clean, patched = os.path.join(work, "clean"), os.path.join(work, "patched")
        for d in (clean, patched):
            sh(["rsync", "-a", "--exclude", ".git", "--exclude", "__pycache__", "/repo/", d + "/"])
        p = sh(["patch", "-p1", "-s", "-i", os.path.join(src, "patch.diff")], cwd=patched)
        if p.returncode != 0:
            res["status"] = "patch-does-not-apply"
            res["detail"] = p.stdout.decode()[-300:]
            return res
        env = dict(os.environ)
        for tree, key in ((clean, "demo_clean_rc"), (patched, "demo_patched_rc")):
            env["PYTHONPATH"] = tree
            try:
                r = subprocess.run(["/venv/bin/python", os.path.join(src, "demo.py")], cwd=work, env=env, stdout=subprocess.PIPE, stderr=subprocess.STDOUT, timeout=600)
                res[key] = r.returncode
                res[key.replace("_rc", "_out")] = r.stdout.decode("utf-8", "replace")[-400:]
            except subprocess.TimeoutExpired:
                res[key] = "timeout"
        junit = os.path.join(work, "junit.xml")
        cmd = ("mount -t tmpfs tmpfs /tmp && cd %s && PYTHONPATH=%s /venv/bin/python -m pytest -q -p no:cacheprovider --timeout=900 "
               "--continue-on-collection-errors --junitxml=%s > %s/suite.log 2>&1") % (patched, patched, junit, work)
        sh(["unshare", "-m", "sh", "-c", cmd])
        passed = set()
        try:
            for tc in ET.parse(junit).iter("testcase"):
                if not any(ch.tag in ("failure", "error", "skipped") for ch in tc):
                    passed.add(tc.get("classname") + "::" + tc.get("name"))
            res["suite_passed"] = len(passed)
            res["stable_pass_broken"] = sorted(STABLE - passed)[:10]
        except Exception as ex:
            res["suite_error"] = repr(ex)
            res["stable_pass_broken"] = ["<no junit>"]
        ok = res.get("demo_clean_rc") == 0 and res.get("demo_patched_rc") == 1 and not res["stable_pass_broken"]
        res["status"] = "valid" if ok else "rejected"
        return res
    finally:
        shutil.rmtree(work, ignore_errors=True)


def main():
    only = sys.argv[1:]
    todo = [("C%02d" % i, v) for i in range(1, 21) for v in VARMAP]
    if only:
        todo = [t for t in todo if t[0] in only]
    todo = [t for t in todo if os.path.exists("%s%s_out/%s/patch.diff" % (PREFIX, t[0], t[1]))]
    os.makedirs(SCR, exist_ok=True)
    out = {}
    with concurrent.futures.ThreadPoolExecutor(6) as ex:
        for r in ex.map(lambda t: one(*t), todo):
            print(r["id"], r["status"], "clean", r.get("demo_clean_rc"), "patched", r.get("demo_patched_rc"), "suite", r.get("suite_passed"), r.get("stable_pass_broken"), r.get("detail", ""))
            sys.stdout.flush()
            out[r["id"]] = r
    with open(os.environ.get("SEED_RESULTS", "/var/tmp/vpseed/results.json"), "w") as f:
        json.dump(out, f, indent=1)


if __name__ == "__main__":
    main()
