#!/venv/bin/python
"""Install validated seeded changes into /verif/seeded/<id>/ (patch.diff, demo.py, meta.json).

  SEED_PREFIX=/tmp/seed6_ SEED_VARMAP=A:N,B:P SEED_ROUND=6 tools/install_seed.py [results.json]

Reads the results file written by tools/validate_seed.py; only entries with status "valid" are installed."""
import json
import os
import shutil
import sys

HERE = os.path.dirname(os.path.dirname(os.path.abspath(__file__)))
PREFIX = os.environ.get("SEED_PREFIX", "/tmp/seed_")
VARMAP = dict(x.split(":") for x in os.environ.get("SEED_VARMAP", "A:A,B:B").split(","))
ROUND = int(os.environ.get("SEED_ROUND", "0"))
AUTHOR = os.environ.get("SEED_AUTHOR", "independent sub-agent given only the property text, the summaries of all earlier changes to avoid, and a scratch worktree")


def main():
    res = json.load(open(sys.argv[1] if len(sys.argv) > 1 else os.environ.get("SEED_RESULTS", "/var/tmp/vpseed/results.json")))
    back = dict((v, k) for k, v in VARMAP.items())
    n = 0
    for sid, r in sorted(res.items()):
        if r.get("status") != "valid":
            print("skip", sid, r.get("status"))
            continue
        src = r["src"]
        dst = os.path.join(HERE, "seeded", sid)
        os.makedirs(dst, exist_ok=True)
        shutil.copy(os.path.join(src, "patch.diff"), os.path.join(dst, "patch.diff"))
        shutil.copy(os.path.join(src, "demo.py"), os.path.join(dst, "demo.py"))
        try:
            am = json.load(open(os.path.join(src, "meta.json")))
        except Exception:
            am = {}
        meta = {"id": sid, "property": r["property"], "round": ROUND, "summary": am.get("summary", ""), "needs_to_manifest": am.get("needs_to_manifest", ""),
                "files": am.get("files", []), "author": AUTHOR, "author_tests_run": am.get("author_tests_run", ""),
                "validated": {"how": "tools/validate_seed.py: scratch copies of /repo under /var/tmp; `PYTHONPATH=<tree> /venv/bin/python demo.py` on the clean and on the patched copy; "
                                     "the BASELINE pytest command on the patched copy inside `unshare -m` with a private tmpfs /tmp, junit compared with BASELINE.json stable_pass",
                              "demo_rc_clean_tree": r.get("demo_clean_rc"), "demo_rc_patched_tree": r.get("demo_patched_rc"),
                              "suite_tests_passed_with_patch": r.get("suite_passed"), "stable_pass_tests_broken_by_patch": r.get("stable_pass_broken", [])}}
        with open(os.path.join(dst, "meta.json"), "w") as f:
            json.dump(meta, f, indent=1)
        n += 1
        print("installed", sid)
    print(n, "installed")


if __name__ == "__main__":
    main()
