#!/venv/bin/python
"""Regenerates MANIFEST.json from the property modules that exist (keeps it valid at all times)."""
import importlib
import json
import os
import sys

HERE = os.path.dirname(os.path.dirname(os.path.abspath(__file__)))
sys.path.insert(0, HERE)
sys.path.insert(0, "/repo")

props = [json.loads(l) for l in open(os.path.join(HERE, "properties.jsonl"))]
checks = []
na = []
for p in props:
    pid = p["id"]
    try:
        mod = importlib.import_module("vpmon.props.%s" % pid.lower())
    except ImportError as e:
        if "vpmon.props" not in str(e):
            raise
        na.append({"property_id": pid, "reason": "check not built yet (planned, see DESIGN.md section 4)"})
        continue
    checks.append({
        "property_id": pid,
        "quick_cmd": "./check %s --tier quick" % pid,
        "thorough_cmd": "./check %s --tier thorough" % pid,
        "evidence_file": "/verif/evidence/%s.json" % pid,
        "replay_cmd_template": "./check %s --replay {path}" % pid,
        "engine": "vpmon",
        "level_claimed": {"category": mod.LEVEL, "text": getattr(mod, "LEVEL_TEXT", mod.RULE)[:1500], "design_ref": "DESIGN.md section 4, %s" % pid},
        "level_note": "; ".join(mod.ASSUMPTIONS)[:1500],
        "technique": getattr(mod, "TECHNIQUE", "runtime monitoring: recorded executions of the real code checked by an offline oracle / reference model"),
    })
manifest = {
    "version": 1,
    "setup_cmd": "sh ./setup.sh",
    "hooks": {
        "guard": "INSIGHTS_CORE_VERIF",
        "enable": "no source hooks were needed: monitors attach from the harness (sys.addaudithook, sys.monitoring, wrappers); checks import /repo's working tree in fresh interpreters",
        "baseline_off_cmd": "cd /repo && /venv/bin/python -m pytest -q -p no:cacheprovider --timeout=900 --continue-on-collection-errors",
        "source_commits": [],
        "add_only": True,
    },
    "engines": [{"name": "vpmon", "path": "/verif/vpmon", "serves_properties": [c["property_id"] for c in checks],
                 "kind_free_text": "runtime monitoring harness: workload generators, event recorders (wrappers, audit hook, sys.monitoring reach counters), reference models and offline oracles; sharded over child interpreters"}],
    "checks": checks,
    "not_applicable": na,
    "notes": "Pure-Python target: compiler sanitizers / native race detectors do not apply (DESIGN.md section 0). Exit codes: 0 held, 1 violation (VIOLATION line), 2 inconclusive (INCONCLUSIVE line, never a VIOLATION line). Known findings: /verif/known_findings.json.",
}
with open(os.path.join(HERE, "MANIFEST.json"), "w") as f:
    json.dump(manifest, f, indent=1)
print("checks:", [c["property_id"] for c in checks], "not_applicable:", [x["property_id"] for x in na])
