"""pytest plugin: the value-free engine monitors of C01 / C03 attached to every dr.run_components call the
repository's own test suite performs (`-p vpmon.pytest_monitor`).

The suite is used as a *workload* only: whether its tests pass is not looked at.  What the monitors observed
is written as JSON to $VPMON_SUITE_OUT at the end of the session.
"""
import collections
import json
import os

from insights.core import dr, plugins

STATS = collections.Counter()
VIOL = []            # (property, mechanism, witness)
ACTIVE = []
_orig_rc = dr.run_components
_orig_process = dr.ComponentType.process
_orig_rule_process = plugins.rule.process
_MAX = 200


def _v(prop, mech, **w):
    STATS["violations"] += 1
    if len(VIOL) < _MAX:
        VIOL.append([prop, mech, w])


def _on_process(delegate, broker):
    if not ACTIVE:
        return
    st = ACTIVE[-1]
    if st["broker"] is not broker:
        return
    c = delegate.component
    st["process"][c] += 1
    if st["process"][c] > 1:
        _v("C01", "processed-more-than-once", component=dr.get_name(c), times=st["process"][c], test=_current())
    for d in delegate.get_dependencies():
        if d in st["components"] and d in dr.DELEGATES and d not in st["attempted"]:
            _v("C01", "dependency-not-attempted-first", component=dr.get_name(c), dependency=dr.get_name(d), test=_current())
    if c in st["seeded"]:
        _v("C01", "seeded-component-processed", component=dr.get_name(c), test=_current())
    if c not in st["components"]:
        _v("C01", "processed-outside-graph", component=dr.get_name(c), test=_current())


def process_wrapper(self, broker):
    _on_process(self, broker)
    return _orig_process(self, broker)


def rule_process(self, broker):
    _on_process(self, broker)
    return _orig_rule_process(self, broker)


def _current():
    return os.environ.get("PYTEST_CURRENT_TEST", "").split(" ")[0]


def patched_rc(ordered, components, broker):
    st = dict(broker=broker, components=components, attempted=set(), process=collections.Counter(),
              seeded=dict((k, id(v)) for k, v in broker.instances.items()))

    def obs(c, b):
        if b is broker:
            st["attempted"].add(c)
    broker.add_observer(obs)
    ACTIVE.append(st)
    STATS["run_components_calls"] += 1
    exc_before = dict((k, len(v)) for k, v in broker.exceptions.items())
    try:
        return _orig_rc(ordered, components, broker)
    except Exception as ex:
        _v("C03", "exception-escaped-evaluation", exc=repr(ex)[:200], test=_current())
        raise
    finally:
        ACTIVE.pop()
        try:
            broker.observers[dr.ComponentType].discard(obs)
        except Exception:
            pass
        STATS["attempt_events"] += len(st["attempted"])
        STATS["process_events"] += sum(st["process"].values())
        for k, i in st["seeded"].items():
            if k in broker.instances and id(broker.instances[k]) != i:
                _v("C01", "seed-overwritten", component=dr.get_name(k), test=_current())
        for k, lst in broker.exceptions.items():
            new = lst[exc_before.get(k, 0):]
            if not new:
                continue
            STATS["exceptions_recorded"] += len(new)
            if k not in st["process"] and not dr.is_registry_point(k):
                _v("C03", "exceptions-under-a-component-that-raised-nothing", key=dr.get_name(k), exceptions=[repr(e)[:100] for e in new[:2]], test=_current())
            for e in new:
                tb = broker.tracebacks.get(e)
                if not (isinstance(tb, str) and "Traceback" in tb):
                    _v("C03", "exception-without-traceback", key=dr.get_name(k), exc=repr(e)[:200], test=_current())
        for c in st["process"]:
            if c in broker.instances and c in broker.missing_requirements:
                _v("C03", "valued-component-also-reported-missing", component=dr.get_name(c), test=_current())


dr.run_components = patched_rc
dr.ComponentType.process = process_wrapper
plugins.rule.process = rule_process


def pytest_sessionfinish(session, exitstatus):
    out = os.environ.get("VPMON_SUITE_OUT")
    if out:
        with open(out, "w") as f:
            json.dump({"stats": dict(STATS), "violations": VIOL, "tests_collected": getattr(session, "testscollected", None),
                       "tests_failed": getattr(session, "testsfailed", None)}, f)
