"""Reach counters: which functions of the anchored files did the workload enter?

Uses sys.monitoring PY_START with DISABLE after the first hit of each code
object, so the steady-state cost is zero.  A check declares the functions its
workload must have entered (``REACH``); a required function that was never
entered makes the verdict *inconclusive*, never "held".
"""
import sys

_HITS = set()
_WATCH = ()
_TOOL = 4  # a free tool id (0-5 are valid; 0 debugger, 1 coverage, 2 profiler, 5 optimizer)
_ON = False


def _cb(code, offset):
    fn = code.co_filename
    for w in _WATCH:
        if fn.endswith(w):
            _HITS.add((w, code.co_qualname))
            break
    return sys.monitoring.DISABLE


def start(reach_specs):
    """reach_specs: iterable of 'insights/core/dr.py::run_components'."""
    global _WATCH, _ON
    files = sorted(set(s.split("::")[0] for s in reach_specs))
    _WATCH = tuple(files)
    if not hasattr(sys, "monitoring") or not files:
        return False
    mon = sys.monitoring
    try:
        mon.use_tool_id(_TOOL, "vpmon-reach")
    except ValueError:
        return False
    mon.register_callback(_TOOL, mon.events.PY_START, _cb)
    mon.set_events(_TOOL, mon.events.PY_START)
    _ON = True
    return True


def hits():
    return sorted("%s::%s" % h for h in _HITS)


def missing(reach_specs):
    got = set(hits())
    return sorted(s for s in reach_specs if s not in got)
