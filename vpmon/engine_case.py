"""One evaluation of a generated graph through a chosen entry form of dr.run,
recorded, plus the offline oracles of C01, C02 and C03 over the event log."""
import collections

from insights.core import dr
from insights.core.exceptions import ContentException, SkipComponent
from insights.core.plugins import Response

from vpmon import gen_graph as G

ENTRY_FORMS = ("all", "all", "target", "list", "set", "type", "group", "subdict", "incremental", "incremental_shared")


def gen_engine_case(rng, tier, **kw):
    g = G.gen_spec(rng, tier, **dict((k, v) for k, v in kw.items() if k != "host_share"))
    n = len(g["nodes"])
    form = rng.choice(ENTRY_FORMS)
    entry = {"form": form}
    if form == "target":
        entry["node"] = rng.randrange(n)
    elif form in ("list", "set"):
        entry["nodes"] = rng.sample(range(n), rng.randint(1, min(n, 4)))
    elif form == "type":
        if not any(nd["kind"] == "plain" for nd in g["nodes"]):
            entry["form"] = "all"
    elif form == "group":
        for nd in g["nodes"]:
            nd["in_group"] = rng.random() < 0.8
    elif form == "subdict":
        entry["drop"] = rng.sample(range(n), rng.randint(1, max(1, n // 4)))
    if entry["form"] == "incremental":
        for nd in g["nodes"]:
            nd["seeded"] = False
    obs = []
    for _ in range(rng.choice([0, 0, 1, 2])):
        obs.append({"on": rng.choice(["all", "all", "rule", "datasource", "parser", "combiner"]), "raises": rng.random() < 0.5,
                    "shape": rng.choice(["function", "function", "partial", "instance"])})
    case = {"graph": g, "entry": entry, "store_skips": rng.random() < 0.5, "observers": obs}
    # a second evaluation after implementations were registered late for existing registry points (what loading
    # another spec module does): same component set, new edges
    if entry["form"] in ("all", "target", "list", "set", "incremental_shared") and rng.random() < 0.5:
        late = []
        for i, nd in enumerate(g["nodes"]):
            if nd["kind"] == "point" and rng.random() < 0.7:
                cands = [j for j in range(i) if g["nodes"][j]["kind"] == "datasource" and g["nodes"][j]["part"] == nd["part"]
                         and not g["nodes"][j].get("implements") and j not in [x[1] for x in late]]
                if cands:
                    late.append([i, rng.choice(cands)])
        if late:
            case["late_impls"] = late
    if rng.random() < 0.3:
        case["none_seeds"] = True          # pre-seeded values that are None
    if rng.random() < 0.4:
        # dependencies added after the first evaluation with dr.add_dependency (the mechanism registry points use),
        # here on ordinary components that have an at-least-one group; evaluated again afterwards
        late = []
        for i, nd in enumerate(g["nodes"]):
            if nd["kind"] in ("plain", "component", "combiner", "condition", "rule") and any(isinstance(w, list) for w in nd["written"]) and rng.random() < 0.5:
                cands = [j for j in range(i) if g["nodes"][j]["part"] == nd["part"] and j not in G.flat_deps(nd)]
                if cands:
                    late.append([i, rng.choice(cands)])
        if late:
            case["late_deps"] = late
    if entry["form"] != "incremental" and any(nd.get("seeded") for nd in g["nodes"]) and rng.random() < 0.3:
        # the broker of a loaded archive: a SerializedArchiveContext next to the pre-seeded values.  dr.run then leaves
        # the direct dependencies of pre-seeded components out of the evaluation ("no need to collect them again").
        # A pre-seeded component that is itself a direct dependency of another pre-seeded one makes that step raise
        # KeyError on the unchanged tree (the engine's own bookkeeping, outside the statement): not generated.
        case["serialized"] = True
        case.pop("late_impls", None)
        case.pop("late_deps", None)
        for nd in g["nodes"]:
            if nd.get("seeded"):
                for d in G.all_deps(nd):
                    g["nodes"][d]["seeded"] = False
    if any(nd.get("seeded") for nd in g["nodes"]) and rng.random() < 0.5:
        # the same components evaluated once more in the same process, now on an ordinary fresh broker without any
        # pre-seeded value (the next archive of a service, the next test of a suite)
        case["rerun_without_seeds"] = True
    if kw.get("host_share") and rng.random() < kw["host_share"]:
        case["host"] = True               # a HostContext in the broker: datasources arm their timeout alarm
    return case


class Run(object):
    pass


def closure(spec, roots):
    nodes = spec["nodes"]
    seen = set()
    stack = list(roots)
    while stack:
        i = stack.pop()
        if i in seen:
            continue
        seen.add(i)
        stack.extend(G.all_deps(nodes[i]))
    return seen


def second_phase(r1):
    """register the late implementations of the case on the built graph and evaluate again (fresh broker)"""
    import copy
    case = r1.case
    b = r1.built
    spec = copy.deepcopy(r1.spec)
    for k, (i, j) in enumerate(case.get("late_impls", [])):
        type("L_%s_%d_%d" % (b.tag, i, k), (b.specset,), {"__module__": b.modname, "n%d" % i: b.comps[j]})
        spec["nodes"][i]["impls"].append(j)
        spec["nodes"][j]["kind"] = "impl"
        spec["nodes"][j]["implements"] = True
    for i, j in case.get("late_deps", []):
        dr.add_dependency(b.comps[i], b.comps[j])
        spec["nodes"][i].setdefault("late_deps", []).append(j)
    if case.get("rerun_without_seeds"):
        for nd in spec["nodes"]:
            nd["seeded"] = False
        case = dict(case, serialized=False, none_seeds=False)
    return execute(case, built=b, spec=spec)


def has_second_phase(case):
    return bool(case.get("late_impls") or case.get("late_deps") or case.get("rerun_without_seeds"))


def execute(case, sleep=None, built=None, spec=None):
    """Build and run; returns a Run with everything the oracles need."""
    spec = spec or case["graph"]
    entry = case["entry"]
    form = entry["form"]
    nodes = spec["nodes"]
    n = len(nodes)
    group = ("grp_%s" % spec.get("tag", "x")) if form == "group" else None
    b = built or G.build(spec, group=group)
    b.sleep[0] = sleep
    r = Run()
    r.case, r.spec, r.built = case, spec, b
    comps = b.comps
    try:
        if form == "all":
            arg = G.full_graph(b)
            in_graph = set(range(n))
        elif form == "target":
            arg = comps[entry["node"]]
            in_graph = closure(spec, [entry["node"]])
        elif form in ("list", "set"):
            sel = [comps[i] for i in entry["nodes"]]
            arg = sel if form == "list" else set(sel)
            in_graph = closure(spec, entry["nodes"])
        elif form == "type":
            arg = b.plain_type
            in_graph = closure(spec, [i for i, nd in enumerate(nodes) if nd["kind"] == "plain"])
        elif form == "group":
            arg = group
            in_graph = set(i for i, nd in enumerate(nodes) if nd["kind"] != "point" and nd.get("in_group", True))
            if group not in dr.COMPONENTS:
                # no node landed in the group: fall back to the full graph
                arg = G.full_graph(b)
                in_graph = set(range(n))
        elif form == "subdict":
            full = G.full_graph(b)
            drop = set(entry["drop"])
            arg = dict((k, v) for k, v in full.items() if b.index[k] not in drop)
            in_graph = set(range(n)) - drop
            if not arg:
                arg = full
                in_graph = set(range(n))
        else:
            arg = G.full_graph(b)
            in_graph = set(range(n))
        r.in_graph = in_graph
        shared = form != "incremental"
        broker = dr.Broker()
        broker.store_skips = case["store_skips"]
        if case.get("host"):
            from insights.core.context import HostContext
            broker[HostContext] = HostContext()
        r.seeds = {}
        if shared:
            for i, nd in enumerate(nodes):
                if nd.get("seeded"):
                    obj = None if (case.get("none_seeds") and i % 2 == 0) else ("seed", i)
                    r.seeds[i] = obj
                    broker[comps[i]] = obj
        if case.get("serialized") and shared:
            from insights.core.context import SerializedArchiveContext
            broker[SerializedArchiveContext] = SerializedArchiveContext()
            # what takes part in the evaluation: everything but the direct dependencies of pre-seeded components
            pruned = set()
            for i in r.seeds:
                if i in in_graph:
                    pruned |= set(d for d in G.all_deps(nodes[i]) if d not in r.seeds)
                    pruned |= set(d for d in nodes[i].get("late_deps", []) if d not in r.seeds)
            in_graph = set(in_graph) - pruned
            r.in_graph = in_graph
            r.pruned = pruned
        r.observer_log = []
        r.observer_excs = []

        def make_obs(k, o):
            def obs(comp, brk):
                r.observer_log.append((k, comp))
                rec = G.active()
                if rec is not None:
                    rec.add("attempt" if k == "attempt" else "observer", comp, id(brk))
                if o and o["raises"]:
                    e = G.Boom("observer-%s" % k)
                    r.observer_excs.append(e)
                    raise e
            return obs
        kind_types = {"all": dr.ComponentType}
        kind_types.update(G.KIND_CLASSES)
        attempt_obs = make_obs("attempt", None)
        broker.add_observer(attempt_obs, dr.ComponentType)
        for k, o in enumerate(case["observers"]):
            fn = make_obs(k, o)
            shape = o.get("shape")
            if shape == "partial":
                import functools
                fn = functools.partial(fn)            # a callable without __name__
            elif shape == "instance":
                class Obs(object):
                    def __init__(self, f):
                        self.f = f

                    def __call__(self, comp, brk):
                        return self.f(comp, brk)
                fn = Obs(fn)
            broker.add_observer(fn, kind_types[o["on"]])
        r.raised = None
        r.brokers = []
        with G.recording() as rec:
            try:
                if form == "incremental":
                    # fresh brokers: store_skips / observers cannot be configured per broker,
                    # so the type-level observer registry is used for the attempt observer
                    dr.add_observer(attempt_obs, dr.ComponentType)
                    try:
                        r.brokers = list(dr.run_incremental(arg))
                    finally:
                        dr.TYPE_OBSERVERS[dr.ComponentType].discard(attempt_obs)
                elif form == "incremental_shared":
                    r.brokers = list(dr.run_incremental(arg, broker=broker))
                else:
                    r.brokers = [dr.run(arg, broker=broker)]
            except Exception as ex:
                r.raised = ex
        r.events = rec.events
        import signal
        r.alarm_left = signal.getitimer(signal.ITIMER_REAL)[0]
        if r.alarm_left:
            signal.alarm(0)
        r.store_skips = case["store_skips"] if shared else False
        r.model = G.model(spec, in_graph=in_graph, seeded_values=dict(r.seeds), store_skips=r.store_skips)
    except Exception:
        b.cleanup()
        raise
    return r


def merged(brokers):
    inst, exc, tbs, miss = {}, collections.defaultdict(list), {}, {}
    dup = []
    seen_b = set()
    for br in brokers:
        if id(br) in seen_b:
            continue
        seen_b.add(id(br))
        for k, v in br.instances.items():
            if k in inst and inst[k] is not v:
                dup.append(k)
            inst[k] = v
        for k, v in br.exceptions.items():
            exc[k].extend(v)
        tbs.update(br.tracebacks)
        miss.update(br.missing_requirements)
    return inst, exc, tbs, miss, dup


# --------------------------------------------------------------------------
# C01
# --------------------------------------------------------------------------
def oracle_c01(r):
    """at most once; dependencies attempted first; seeds untouched; nothing
    outside the evaluated graph / disabled is invoked; one attempt event per item"""
    out = []
    b, spec = r.built, r.spec
    nodes = spec["nodes"]
    idx = b.index
    if r.raised is not None:
        out.append(("run-raised", {"exc": repr(r.raised)}))
        return out
    process = collections.Counter()
    bodies = collections.defaultdict(list)
    attempts = collections.Counter()
    attempted_at = {}
    sets = collections.Counter()
    for ev in r.events:
        clock, tid, kind = ev[0], ev[1], ev[2]
        if kind == "process":
            c = ev[3]
            i = idx.get(c)
            if i is None:
                continue
            process[(i, ev[4])] += 1
            # (2) all declared dependencies taking part were attempted before
            for d in G.all_deps(nodes[i]):
                if d in r.in_graph and (d, ev[4]) not in attempted_at and d not in r.seeds:
                    out.append(("dependency-not-attempted-first", {"component": i, "dependency": d, "kind": nodes[i]["kind"]}))
            if i in r.seeds:
                out.append(("seeded-component-processed", {"component": i}))
            if i not in r.in_graph:
                out.append(("processed-outside-graph", {"component": i}))
            if not nodes[i]["enabled"]:
                out.append(("disabled-component-processed", {"component": i}))
        elif kind == "body":
            bodies[ev[3]].append((clock, ev[4]))
        elif kind == "attempt":
            i = idx.get(ev[3])
            if i is not None:
                attempts[(i, ev[4])] += 1
                attempted_at.setdefault((i, ev[4]), clock)
        elif kind == "set":
            i = idx.get(ev[3])
            if i is not None:
                sets[(i, ev[5])] += 1
                if i in r.seeds:
                    out.append(("seed-overwritten", {"component": i}))
    per_node_process = collections.Counter()
    for (i, bid), k in process.items():
        per_node_process[i] += k
    for i, k in per_node_process.items():
        if k > 1:
            out.append(("processed-more-than-once", {"component": i, "times": k, "kind": nodes[i]["kind"]}))
    body_clock = sorted((clk, i) for i, lst in bodies.items() for clk, a in lst)
    for i, lst in bodies.items():
        nd = nodes[i]
        if i in r.seeds:
            out.append(("seeded-component-invoked", {"component": i}))
        if i not in r.in_graph or not nd["enabled"]:
            out.append(("invoked-outside-graph-or-disabled", {"component": i}))
        limit = 1
        if nd["kind"] == "parser":
            m = r.model[i]
            limit = max(1, len(m["invocations"]))
        if len(lst) > limit:
            out.append(("body-invoked-more-than-once", {"component": i, "times": len(lst), "limit": limit, "kind": nd["kind"]}))
        if len(lst) > 1:
            # contiguous: no other body between the first and the last invocation
            lo, hi = lst[0][0], lst[-1][0]
            if any(lo < clk < hi and j != i for clk, j in body_clock):
                out.append(("multi-output-invocations-not-contiguous", {"component": i}))
    for (i, bid), k in attempts.items():
        if k != 1:
            out.append(("attempt-observer-fired-%d-times" % k, {"component": i}))
    inst, exc, tbs, miss, dup = merged(r.brokers)
    for i, obj in r.seeds.items():
        if inst.get(b.comps[i]) is not obj:
            out.append(("seed-replaced", {"component": i}))
    for c in dup:
        out.append(("component-valued-in-two-brokers", {"component": idx.get(c)}))
    return out


# --------------------------------------------------------------------------
# C02
# --------------------------------------------------------------------------
def oracle_c02(r):
    out = []
    b, spec = r.built, r.spec
    nodes = spec["nodes"]
    if r.raised is not None:
        return [("run-raised", {"exc": repr(r.raised)})]
    inst, exc, tbs, miss, dup = merged(r.brokers)
    bodies = collections.defaultdict(list)
    for ev in r.events:
        if ev[2] == "body":
            bodies[ev[3]].append(ev[4])
    for i, nd in enumerate(nodes):
        m = r.model[i]
        c = b.comps[i]
        got = bodies.get(i, [])
        kind = nd["kind"]
        st = m["status"]
        if kind == "point":
            # the registry point's body is the library's own; judged by presence/value only
            if st == "invoked":
                if c not in inst:
                    out.append(("point-absent-though-implemented", {"component": i}))
                elif not G.value_matches(m["value"], inst[c]):
                    out.append(("point-value-not-from-latest-present-implementation", {"component": i}))
            elif st in ("missing", "disabled", "outside") and c in inst:
                out.append(("point-present-unexpectedly", {"component": i, "status": st}))
            continue
        if st == "invoked":
            exp = m["invocations"]
            if not got and exp:
                out.append(("not-invoked-though-requirements-met", {"component": i, "kind": kind}))
                continue
            if kind in ("datasource", "impl"):
                if not (len(got) == 1 and len(got[0]) == 1 and isinstance(got[0][0], dr.Broker)):
                    out.append(("datasource-not-called-with-broker", {"component": i}))
            else:
                if len(got) != len(exp):
                    out.append(("invocation-count-differs", {"component": i, "kind": kind, "got": len(got), "expected": len(exp)}))
                else:
                    for ga, ea in zip(got, exp):
                        if len(ga) != len(ea) or not all((e is None and g is None) or (e is not None and G.value_matches(e, g)) for g, e in zip(ga, ea)):
                            out.append(("arguments-not-bound-in-declaration-order", {
                                "component": i, "kind": kind, "got": [G.canon(x) for x in ga], "expected": [G.canon(x) for x in ea],
                                "declared": G.flat_deps(nd)}))
                            break
            if m["present"]:
                if c not in inst:
                    out.append(("value-missing-after-successful-invocation", {"component": i, "kind": kind}))
                elif not G.value_matches(m["value"], inst[c]):
                    out.append(("value-differs-from-model", {"component": i, "kind": kind, "got": G.canon(inst[c]), "expected": G.canon(m["value"])}))
            elif c in inst:
                out.append(("value-present-after-failed-invocation", {"component": i, "kind": kind}))
        else:
            if got:
                out.append(("invoked-though-%s" % st, {"component": i, "kind": kind}))
            if st == "missing":
                mr = [b.comps[d] for d in m["missing"][0]]
                mg = [[b.comps[d] for d in g] for g in m["missing"][1]]
                if kind == "rule":
                    resp = inst.get(c)
                    if not (isinstance(resp, Response) and resp.get("type") == "skip"):
                        out.append(("rule-without-skip-result", {"component": i, "got": repr(resp)[:200]}))
                    elif tuple(resp.missing) != (mr, mg) and list(resp.missing) != [mr, mg]:
                        out.append(("rule-skip-names-wrong-dependencies", {"component": i, "got": _names(resp.missing, b), "expected": m["missing"]}))
                    if c in miss:
                        out.append(("rule-also-in-missing-requirements", {"component": i}))
                else:
                    if c in inst:
                        out.append(("value-present-though-requirements-missing", {"component": i, "kind": kind}))
                    rep = miss.get(c)
                    if rep is None:
                        out.append(("missing-dependencies-not-reported", {"component": i, "kind": kind}))
                    elif (list(rep[0]), [list(g) for g in rep[1]]) != (mr, mg):
                        out.append(("missing-report-differs", {"component": i, "kind": kind, "got": _names(rep, b), "expected": m["missing"]}))
            elif st in ("disabled", "outside"):
                if c in inst or c in miss or c in exc:
                    out.append(("%s-component-reported" % st, {"component": i, "kind": kind}))
            elif st == "seeded":
                if c in miss or c in exc:
                    out.append(("seeded-component-reported", {"component": i}))
    return out


def _names(rep, b):
    try:
        return [[b.index.get(x) for x in rep[0]], [[b.index.get(x) for x in g] for g in rep[1]]]
    except Exception:
        return repr(rep)


# --------------------------------------------------------------------------
# C03
# --------------------------------------------------------------------------
STRICT = ("cpe", "timeout", "boom", "keyerr", "valerr", "typeerr")


def oracle_c03(r):
    out = []
    b, spec = r.built, r.spec
    nodes = spec["nodes"]
    if r.raised is not None:
        return [("exception-escaped-evaluation", {"exc": repr(r.raised)})]
    if getattr(r, "alarm_left", 0):
        # a datasource's timeout alarm survived the evaluation: it will hit whatever unrelated code runs next
        out.append(("timeout-alarm-left-armed-after-evaluation", {"seconds_remaining": r.alarm_left,
                                                                  "failing_datasources": [i for i, nd in enumerate(nodes) if nd["kind"] in ("datasource", "impl") and nd["outcome"] in G.OUTCOMES_FAULT]}))
    inst, exc, tbs, miss, dup = merged(r.brokers)
    # (2) survivors have exactly the model value (the model simply treats failed components as absent)
    for i, nd in enumerate(nodes):
        m = r.model[i]
        c = b.comps[i]
        if m["status"] == "seeded":
            continue
        if m["present"]:
            if c not in inst:
                out.append(("satisfiable-component-lost-its-value", {"component": i, "kind": nd["kind"]}))
            elif not G.value_matches(m["value"], inst[c]):
                out.append(("satisfiable-component-value-changed", {"component": i, "kind": nd["kind"], "got": G.canon(inst[c]), "expected": G.canon(m["value"])}))
        elif c in inst:
            out.append(("failed-component-has-a-value", {"component": i, "kind": nd["kind"]}))
    # where is each injected exception recorded?
    where = collections.defaultdict(list)      # id(exc) -> list of keys
    foreign = []
    for key, lst in exc.items():
        for e in lst:
            if id(e) in b.injected:
                where[id(e)].append(key)
            else:
                foreign.append((key, e))
    allowed_cache = {}

    def allowed(i):
        if i not in allowed_cache:
            allowed_cache[i] = set([b.comps[i]]) | set(b.comps[p] for p in G.registry_points_allowed(spec, i))
        return allowed_cache[i]
    raised = {}
    for i, nd in enumerate(nodes):
        for (node, k, outcome) in r.model[i]["raised"]:
            raised.setdefault((node, k, outcome), 0)
            raised[(node, k, outcome)] += 1
    for (i, k, outcome), times in raised.items():
        nd = nodes[i]
        if outcome == "engine-notresponse":
            hits = [e for e in exc.get(b.comps[i], []) if id(e) not in b.injected]
            if len(hits) != 1:
                out.append(("non-response-return-not-recorded-once", {"component": i, "recorded": len(hits)}))
            else:
                foreign = [(kk, e) for kk, e in foreign if e is not hits[0]]
                if not (isinstance(tbs.get(hits[0]), str) and "Traceback" in tbs[hits[0]]):
                    out.append(("exception-without-traceback", {"component": i, "outcome": outcome}))
            continue
        e = b.elem_excs[(i, k)] if k is not None else b.excs[i]
        keys = where.get(id(e), [])
        bad = [kk for kk in keys if kk not in allowed(i)]
        if bad:
            out.append(("exception-recorded-against-unrelated-component", {
                "component": i, "kind": nd["kind"], "outcome": outcome, "element": k, "keys": [dr.get_name(x) for x in bad]}))
        if outcome == "skip":
            if r.store_skips:
                if not keys:
                    out.append(("skip-not-recorded-with-skip-recording-on", {"component": i, "kind": nd["kind"], "element": k}))
                elif any(kk is not b.comps[i] for kk in keys):
                    out.append(("skip-recorded-against-other-than-skipping-component", {
                        "component": i, "kind": nd["kind"], "element": k, "keys": [dr.get_name(x) for x in keys]}))
            elif keys:
                out.append(("skip-recorded-with-skip-recording-off", {"component": i, "kind": nd["kind"], "element": k}))
        elif outcome == "ce":
            pass            # subclass of the skip signal: recording optional (within the allowed set, checked above)
        else:
            if not keys:
                out.append(("exception-not-recorded", {"component": i, "kind": nd["kind"], "outcome": outcome, "element": k,
                                                       "has_registry_points": bool(G.registry_points_allowed(spec, i))}))
        if keys and not (isinstance(tbs.get(e), str) and "Traceback" in tbs[e]):
            if not (outcome in ("skip",) and False):
                out.append(("exception-without-traceback", {"component": i, "kind": nd["kind"], "outcome": outcome, "element": k}))
        elif keys and G.raiser_name(i, k) not in tbs[e]:
            # recorded "with a traceback" means with the traceback of THIS failure
            out.append(("traceback-belongs-to-another-failure", {"component": i, "kind": nd["kind"], "outcome": outcome, "element": k,
                                                                 "traceback_tail": tbs[e][-300:]}))
    # injected exceptions recorded although the model says the body never ran / never raised
    expected_ids = set()
    for (i, k, outcome) in raised:
        if outcome != "engine-notresponse":
            expected_ids.add(id(b.elem_excs[(i, k)] if k is not None else b.excs[i]))
    for eid, keys in where.items():
        if eid not in expected_ids:
            out.append(("exception-recorded-that-was-never-raised", {"injected": b.injected[eid]}))
    for key, e in foreign:
        i = b.index.get(key)
        if (type(e) is SkipComponent and r.store_skips and i is not None and r.model[i]["status"] == "invoked"
                and not r.model[i]["present"]):
            continue        # the engine's own skip marker for a component that gave up, recorded against itself
        out.append(("foreign-exception-recorded", {"key": dr.get_name(key), "exc": repr(e)[:300]}))
    # nothing recorded against components that did not raise (keys outside every allowed set)
    ok_keys = set()
    for (i, k, outcome) in raised:
        ok_keys |= allowed(i)
    if r.store_skips:
        for i, m in enumerate(r.model):
            if m["status"] == "invoked" and not m["present"]:
                ok_keys.add(b.comps[i])
    for key in exc:
        if exc[key] and key not in ok_keys:
            out.append(("exceptions-under-a-component-that-raised-nothing", {"key": dr.get_name(key)}))
    return out
