"""The repository's own test suite as a workload for the value-free engine monitors (vpmon.pytest_monitor)."""
import json
import os
import shutil
import subprocess
import sys
import tempfile

VERIF = os.path.dirname(os.path.dirname(os.path.abspath(__file__)))


def run_suite(repo_root, paths, timeout=1500):
    """runs pytest over `paths` (relative to repo_root) with the monitor plugin; returns the plugin's document or
    {"error": text}.  Runs inside a private mount namespace with a private /tmp when that is possible (some spec tests
    use fixed /tmp paths), otherwise directly."""
    # the monitor's output must be visible outside the private mount namespace: neither below /tmp nor below /var/tmp
    shm = os.path.isdir("/dev/shm") and os.access("/dev/shm", os.W_OK)
    work = tempfile.mkdtemp(prefix="vpsuite_", dir="/dev/shm" if shm else ("/var/tmp" if os.path.isdir("/var/tmp") else None))
    out = os.path.join(work, "monitor.json")
    env = dict(os.environ)
    env.update({"PYTHONPATH": VERIF + os.pathsep + repo_root, "PYTHONDONTWRITEBYTECODE": "1", "VPMON_SUITE_OUT": out, "PYTHONHASHSEED": "0"})
    pytest_cmd = [sys.executable, "-m", "pytest", "-q", "-p", "no:cacheprovider", "-p", "vpmon.pytest_monitor", "--timeout=900",
                  "--continue-on-collection-errors"] + list(paths)
    quoted = " ".join("'%s'" % a for a in pytest_cmd)
    # the tests leave scratch directories in /tmp and /var/tmp: both are private tmpfs mounts inside the namespace
    mounts = "mount -t tmpfs tmpfs /tmp && " + ("mount -t tmpfs tmpfs /var/tmp && " if shm else "")
    attempts = [["unshare", "-m", "sh", "-c", mounts + "cd '%s' && exec %s" % (repo_root, quoted)], pytest_cmd]
    last = ""
    try:
        for cmd in attempts:
            try:
                env2 = dict(env)
                if cmd[0] != "unshare":
                    # no private /tmp: at least what the tests create through tempfile lands in a directory that is removed
                    os.makedirs(os.path.join(work, "tmp"), exist_ok=True)
                    env2["TMPDIR"] = os.path.join(work, "tmp")
                cp = subprocess.run(cmd, cwd=repo_root, env=env2, stdout=subprocess.PIPE, stderr=subprocess.STDOUT, timeout=timeout)
            except subprocess.TimeoutExpired:
                return {"error": "suite timed out after %d s" % timeout}
            except OSError as ex:
                last = repr(ex)
                continue
            last = cp.stdout.decode("utf-8", "replace")[-1500:]
            if os.path.exists(out):
                with open(out) as f:
                    doc = json.load(f)
                doc["isolated_tmp"] = cmd[0] == "unshare"
                doc["pytest_tail"] = last[-300:]
                return doc
        return {"error": "the suite produced no monitor output: " + last}
    finally:
        shutil.rmtree(work, ignore_errors=True)
