"""Audit-hook recorder: the ground truth for "was this file opened / this
command executed / this path created".  One hook per process (audit hooks
cannot be removed); recording is switched with ``record()``.
"""
import os
import sys
import threading

_LOCK = threading.Lock()
_SINK = None          # list or None
_INSTALLED = False
_TL = threading.local()

EVENTS = {
    "open", "subprocess.Popen", "os.mkdir", "os.remove", "os.rename", "os.symlink",
    "os.rmdir", "os.link", "os.truncate", "os.chmod", "os.exec", "os.posix_spawn",
    "os.system", "shutil.copyfile", "shutil.move", "shutil.rmtree", "shutil.copytree",
    "os.scandir", "os.listdir", "glob.glob",
}


def _hook(event, args):
    sink = _SINK
    if sink is None or event not in EVENTS:
        return
    if getattr(_TL, "busy", False):
        return
    _TL.busy = True
    try:
        if event == "open":
            path, mode, flags = args
            if isinstance(path, int):
                return
            if isinstance(path, bytes):
                path = os.fsdecode(path)
            wr = bool(flags is not None and (flags & (os.O_WRONLY | os.O_RDWR | os.O_CREAT | os.O_TRUNC | os.O_APPEND)))
            rec = ("open", str(path), "w" if wr else "r")
        elif event == "subprocess.Popen":
            exe, argv, cwd, env = args
            rec = ("popen", [os.fsdecode(a) if isinstance(a, bytes) else str(a) for a in (argv if isinstance(argv, (list, tuple)) else [argv])], exe if isinstance(exe, str) else str(exe))
        else:
            rec = (event,) + tuple(os.fsdecode(a) if isinstance(a, bytes) else (a if isinstance(a, (str, int, type(None))) else repr(a)) for a in args)
        with _LOCK:
            sink.append(rec)
    finally:
        _TL.busy = False


def install():
    global _INSTALLED
    if not _INSTALLED:
        sys.addaudithook(_hook)
        _INSTALLED = True


class record(object):
    """with audit.record() as events: ..."""

    def __enter__(self):
        global _SINK
        install()
        self.prev = _SINK
        self.events = []
        _SINK = self.events
        return self.events

    def __exit__(self, *a):
        global _SINK
        _SINK = self.prev
        return False
