"""Shared component-graph generator, recorder and reference model (C01-C04).

Graphs are described by JSON-able specs and built with the *real* decorators
into the *real* registries.  Bodies are harness closures that append to an
event log and return a value that identifies the invocation (node index and a
signature of the arguments received) or raise their own pre-allocated exception
object.

The reference model is written from the statements of C01-C03 and the class
docstrings of ComponentType / parser / rule, not from dr.run_components.
"""
import hashlib
import itertools
import sys
import threading
import time
import types

from insights.core import dr, plugins
from insights.core.exceptions import (CalledProcessError, ContentException, MissingRequirements,
                                      SkipComponent, TimeoutException)
from insights.core.plugins import (Response, combiner, component, condition, datasource, fact, incident,
                                   make_fail, make_fingerprint, make_info, make_metadata, make_pass, parser, rule)
from insights.core.spec_factory import RegistryPoint, SpecSet

_COUNTER = itertools.count()

DEFAULT_INVOKE_KINDS = ("plain", "implicit", "component", "combiner", "condition", "incident", "fact", "rule")
KIND_CLASSES = {"component": component, "combiner": combiner, "condition": condition, "incident": incident,
                "fact": fact, "rule": rule, "datasource": datasource, "impl": datasource, "parser": parser}
OUTCOMES_FAULT = ("skip", "ce", "cpe", "timeout", "boom", "keyerr", "valerr", "typeerr")
RULE_RESPONSES = {"pass": make_pass, "fail": make_fail, "info": make_info, "fingerprint": make_fingerprint}


class Boom(Exception):
    pass


def make_exc(outcome, tag):
    if outcome == "skip":
        return SkipComponent("skip-%s" % tag)
    if outcome == "ce":
        return ContentException("ce-%s" % tag)
    if outcome == "cpe":
        # failed commands of different components are often EQUAL in return code, command and output (two consumers of one
        # failing command): only two distinct texts are used, so equal-but-distinct error objects occur in most graphs
        return CalledProcessError(1, "cmd-%d" % (sum(map(ord, tag)) % 2), "out")
    if outcome == "timeout":
        return TimeoutException("to-%s" % tag)
    if outcome == "boom":
        return Boom("boom-%s" % tag)
    if outcome == "keyerr":
        return KeyError("key-%s" % tag)
    if outcome == "valerr":
        return ValueError("val-%s" % tag)
    if outcome == "typeerr":
        # what int() / float() of an absent optional value raises inside a body
        return TypeError("int() argument must be a string, a bytes-like object or a real number, not 'NoneType' (%s)" % tag)
    return None


def raiser_name(i, k):
    return "raise_in_node_%d_%s" % (i, "x" if k is None else "elem_%d" % k)


def sig(obj):
    """Stable, address-free signature of a value handed to a component."""
    return hashlib.blake2b(canon(obj).encode(), digest_size=6).hexdigest()


_RESP_KEYS = {"pass": ("pass", "pass_key"), "fail": ("rule", "error_key"), "info": ("info", "info_key"),
              "fingerprint": ("fingerprint", "fingerprint_key")}


def canon(obj):
    """canonical text of a value; model values of rule nodes (marker tuples)
    canonicalise to the text of the real Response they stand for"""
    if isinstance(obj, Response):
        if obj.get("type") == "skip":
            return "Rskip"
        return "R{" + ",".join("%s:%s" % (k, canon(obj[k])) for k in sorted(obj)) + "}"
    if isinstance(obj, tuple) and obj and obj[0] == "skip-response":
        return "Rskip"
    if isinstance(obj, tuple) and obj and obj[0] == "response":
        _, outcome, i, s = obj
        if outcome == "none":
            d = {"type": "none", "none_key": "NONE_KEY"}
        elif outcome == "metadata":
            d = {"type": "metadata", "sig": s, "node": i}
        else:
            t, kn = _RESP_KEYS[outcome]
            d = {"type": t, kn: "KEY_%d" % i, "sig": s, "node": i}
        return "R{" + ",".join("%s:%s" % (k, canon(d[k])) for k in sorted(d)) + "}"
    if isinstance(obj, dict):
        return "{" + ",".join("%s:%s" % (canon(k), canon(obj[k])) for k in sorted(obj, key=repr)) + "}"
    if isinstance(obj, (list, tuple)):
        return "[" + ",".join(canon(x) for x in obj) + "]"
    if isinstance(obj, dr.Broker):
        return "<broker>"
    return repr(obj)


# --------------------------------------------------------------------------
# recorder: process/setitem/run_order wrappers installed once per process
# --------------------------------------------------------------------------
class Recorder(object):
    def __init__(self):
        self.lock = threading.Lock()
        self.events = []
        self.clock = itertools.count()

    def add(self, *ev):
        with self.lock:
            self.events.append((next(self.clock), threading.get_ident()) + ev)


_ACTIVE = [None]
_INSTALLED = [False]


def active():
    return _ACTIVE[0]


def install_wrappers():
    if _INSTALLED[0]:
        return
    _INSTALLED[0] = True
    orig_process = dr.ComponentType.process
    orig_rule_process = plugins.rule.process
    orig_setitem = dr.Broker.__setitem__
    orig_run_order = dr.run_order

    def process(self, broker):
        rec = _ACTIVE[0]
        if rec is not None:
            rec.add("process", self.component, id(broker))
        return orig_process(self, broker)

    def rule_process(self, broker):
        rec = _ACTIVE[0]
        if rec is not None:
            rec.add("process", self.component, id(broker))
        return orig_rule_process(self, broker)

    def setitem(self, comp, value):
        rec = _ACTIVE[0]
        if rec is not None:
            rec.add("set", comp, id(value), id(self))
        return orig_setitem(self, comp, value)

    def run_order(graph):
        order = orig_run_order(graph)
        rec = _ACTIVE[0]
        if rec is not None:
            rec.add("order", list(order))
        return order

    process.__wrapped__ = orig_process
    dr.ComponentType.process = process
    plugins.rule.process = rule_process
    dr.Broker.__setitem__ = setitem
    dr.run_order = run_order


class recording(object):
    def __enter__(self):
        install_wrappers()
        self.rec = Recorder()
        _ACTIVE[0] = self.rec
        return self.rec

    def __exit__(self, *a):
        _ACTIVE[0] = None
        return False


# --------------------------------------------------------------------------
# generation of specs
# --------------------------------------------------------------------------
def gen_spec(rng, tier, max_nodes=None, parts=1, with_points=True, kinds=None, fault_rate=0.3,
             allow_disabled=True, allow_seeded=True, host_ds=False):
    """Returns a JSON-able graph spec."""
    n = rng.randint(2, max_nodes or (14 if tier == "quick" else 40))
    kinds = kinds or ["plain", "plain", "implicit", "component", "combiner", "combiner", "condition", "incident", "fact",
                      "rule", "rule", "datasource", "datasource", "parser", "parser", "point"]
    nodes = []
    for i in range(n):
        part = rng.randrange(parts)
        prev = [j for j in range(i) if nodes[j]["part"] == part]
        kind = rng.choice(kinds)
        if kind == "point" and not with_points:
            kind = "datasource"
        node = {"kind": kind, "part": part}
        if kind == "point":
            # implementations: earlier datasources of the same part that do not implement a point yet
            cands = [j for j in prev if nodes[j]["kind"] == "datasource" and not nodes[j].get("implements")]
            k = rng.randint(0, min(3, len(cands)))
            impls = rng.sample(cands, k)
            for j in impls:
                nodes[j]["implements"] = True
                nodes[j]["kind"] = "impl"
            node.update(impls=impls, written=[], opt=[], outcome="value", enabled=rng.random() > 0.05 or not allow_disabled,
                        seeded=False, multi=rng.random() < 0.3, prio=rng.choice([0, 0, 0, 5, -1, 2]))
            nodes.append(node)
            continue
        nreq = rng.choice([0, 0, 1, 1, 1, 2, 2, 3])
        req = rng.sample(prev, min(len(prev), nreq))
        groups = []
        if prev:
            for _ in range(rng.choice([0, 0, 0, 1, 1, 2, 3])):
                g = rng.sample(prev, min(len(prev), rng.randint(1, 3)))
                if rng.random() < 0.15 and req:
                    g.append(rng.choice(req))      # group repeating a required dep
                if rng.random() < 0.1:
                    g = g + [g[0]]                 # member written twice
                groups.append(g)
        written = [j for j in req] + [list(g) for g in groups]
        rng.shuffle(written)
        if kind == "parser":
            if not prev:
                kind = node["kind"] = "component"
            else:
                # first written dependency must be a required, single dependency
                first = rng.choice(prev)
                written = [first] + [w for w in written if w != first]
        nopt = rng.choice([0, 0, 1, 1, 2, 3])
        opt = rng.sample(prev, min(len(prev), nopt))
        if opt and req and rng.random() < 0.2:
            opt.append(rng.choice(req))            # optional repeating a required dep
        node.update(written=written, opt=opt, opt_single=bool(len(opt) == 1 and rng.random() < 0.5))
        if kind == "implicit":
            # class level requires / optional, prepended to the decorator's
            node["cls_req"] = rng.sample(prev, min(len(prev), rng.randint(0, 2)))
            # the type-level optional dependency is preferably one the decorator does not name as well: then the type-level
            # declaration is the ONLY thing that orders the two components
            declared = set(node["cls_req"]) | set(opt) | set(x for w in written for x in (w if isinstance(w, list) else [w]))
            fresh = [j for j in prev if j not in declared]
            node["cls_opt"] = ([rng.choice(fresh)] if fresh and rng.random() < 0.8 else rng.sample(prev, min(len(prev), 1))) if rng.random() < 0.7 else []
        r = rng.random()
        if r < fault_rate:
            outcome = rng.choice(OUTCOMES_FAULT)
        else:
            outcome = "value"
        if kind == "rule":
            outcome = rng.choice(["pass", "fail", "info", "fingerprint", "metadata", "none", "notresponse"]) if outcome == "value" else outcome
        node["outcome"] = outcome
        if kind == "datasource":
            node["multi"] = rng.random() < 0.35
            node["nelem"] = rng.randint(0, 4)
            node["host"] = bool(host_ds)
        if kind == "parser":
            node["continue_on_error"] = rng.random() < 0.6
            node["elem_outcomes"] = [rng.choice(["value"] * 4 + ["none", "skip", "ce", "cpe", "boom"]) for _ in range(4)]
        node["enabled"] = (rng.random() > 0.08) if allow_disabled else True
        node["seeded"] = (rng.random() < 0.07) if allow_seeded else False
        nodes.append(node)
    return {"nodes": nodes, "junk": [rng.randint(0, 3) for _ in range(n)], "tag": "%x" % rng.getrandbits(32)}


# --------------------------------------------------------------------------
# building
# --------------------------------------------------------------------------
class Built(object):
    """The real components of one spec plus the bookkeeping needed to clean up."""

    def __init__(self, spec):
        self.spec = spec
        self.comps = []
        self.excs = {}          # node index -> exception object (single outcome)
        self.elem_excs = {}     # (node, k) -> exception object
        self.injected = {}      # id(exc) -> (node, k|None)
        self.modules = []
        self.types = []
        self.extra = []         # specset classes etc. kept alive
        self.sleep = [None]     # callable injected into bodies (yield injection)
        self.log = None
        self.index = {}

    def cleanup(self):
        for c in self.comps:
            _unregister(c)
        for m in self.modules:
            sys.modules.pop(m, None)
        for t in self.types:
            dr.COMPONENTS_BY_TYPE.pop(t, None)


def _unregister(c):
    d = dr.DELEGATES.pop(c, None)
    deps = dr.DEPENDENCIES.pop(c, set())
    for x in deps:
        s = dr.DEPENDENTS.get(x)
        if s is not None:
            s.discard(c)
    dr.DEPENDENTS.pop(c, None)
    for g in list(dr.COMPONENTS):
        dr.COMPONENTS[g].pop(c, None)
        if not dr.COMPONENTS[g] and g not in (dr.GROUPS.single, dr.GROUPS.cluster):
            del dr.COMPONENTS[g]
    for k, v in dr.COMPONENTS_BY_TYPE.items():
        v.discard(c)
    dr.ENABLED.pop(c, None)
    dr.IGNORE.pop(c, None)
    dr.MODULE_NAMES.pop(c, None)
    dr.BASE_MODULE_NAMES.pop(c, None)
    dr.HIDDEN.discard(c)


def node_value(i, args):
    return ("v", i, sig(args))


def build(spec, group=None):
    b = Built(spec)
    uid = next(_COUNTER)
    tag = "g%d_%s" % (uid, spec.get("tag", ""))
    modname = "vpmon_gen.%s" % tag
    mod = types.ModuleType(modname)
    sys.modules[modname] = mod
    b.modules.append(modname)
    b.tag, b.modname = tag, modname
    nodes = spec["nodes"]
    plain_t = type("plain_%s" % tag, (dr.ComponentType,), {})
    b.types.append(plain_t)
    b.plain_type = plain_t
    # registry points first: they must exist before their implementations are registered
    points = {}
    pts = [i for i, nd in enumerate(nodes) if nd["kind"] == "point"]
    if pts:
        dct = {"__module__": modname}
        for i in pts:
            # "prio" only arranges the sub-graphs of incremental runs; it must never reorder dependencies
            dct["n%d" % i] = RegistryPoint(multi_output=nodes[i].get("multi", False), prio=nodes[i].get("prio", 0))
        S = type("S_%s" % tag, (SpecSet,), dct)
        b.extra.append(S)
        for i in pts:
            points[i] = getattr(S, "n%d" % i)
        b.specset = S
    junk_keep = []
    for i, nd in enumerate(nodes):
        for _ in range(spec["junk"][i] if i < len(spec.get("junk", [])) else 0):
            junk_keep.append(lambda: None)        # perturb allocation addresses
        kind = nd["kind"]
        if kind == "point":
            p = points[i]
            # register the implementations in the given order: one SpecSet subclass each
            for order_k, j in enumerate(nd["impls"]):
                I = type("I_%s_%d_%d" % (tag, i, order_k), (b.specset,), {"__module__": modname, "n%d" % i: b.comps[j]})
                b.extra.append(I)
            if not nd["enabled"]:
                dr.set_enabled(p, False)
            b.comps.append(p)
            continue
        body = _make_body(b, i, nd, tag, modname)
        written = [([b.comps[k] for k in w] if isinstance(w, list) else b.comps[w]) for w in nd["written"]]
        opt = [b.comps[k] for k in nd["opt"]]
        optional = (opt[0] if nd.get("opt_single") and len(opt) == 1 else opt)
        kw = {}
        if group is not None and nd.get("in_group", True):
            kw["group"] = group
        if kind == "plain":
            deco = plain_t(*written, optional=optional, **kw)
        elif kind == "implicit":
            t = type("implicit_%s_%d" % (tag, i), (dr.ComponentType,), {
                "requires": [b.comps[k] for k in nd.get("cls_req", [])],
                "optional": [b.comps[k] for k in nd.get("cls_opt", [])]})
            b.types.append(t)
            deco = t(*written, optional=optional, **kw)
        elif kind == "parser":
            deco = parser(*written, optional=optional, continue_on_error=nd.get("continue_on_error", True), **kw) \
                if False else _parser_deco(written, optional, nd, kw)
        else:
            deco = KIND_CLASSES[kind](*written, optional=optional, **kw)
        c = deco(body)
        if not nd["enabled"]:
            dr.set_enabled(c, False)      # enabled is the default: no entry is created for enabled components
        b.comps.append(c)
    b.index = dict((c, i) for i, c in enumerate(b.comps))
    b._junk = junk_keep
    return b


def _parser_deco(written, optional, nd, kw):
    # parser.__init__ only forwards *args and group: optional deps are not
    # supported by the parser decorator, so none are passed
    return parser(*written, continue_on_error=nd.get("continue_on_error", True), **kw)


def _make_body(b, i, nd, tag, modname):
    kind = nd["kind"]
    outcome = nd["outcome"]
    xtag = b.spec.get("tag", "")      # exception texts must not depend on the per-build uid
    exc = make_exc(outcome, "%s-%d" % (xtag, i))
    if exc is not None:
        b.excs[i] = exc
        b.injected[id(exc)] = (i, None)
    elem_out = nd.get("elem_outcomes") or []
    for k, eo in enumerate(elem_out):
        e = make_exc(eo, "%s-%d-%d" % (xtag, i, k))
        if e is not None:
            b.elem_excs[(i, k)] = e
            b.injected[id(e)] = (i, k)

    # every failure is raised from a function whose name is unique to (node, element): the traceback stored for an
    # exception can be told from the traceback of any other failure even when the exception objects compare equal
    def mk_raiser(name):
        def raiser(e):
            raise e
        raiser.__code__ = raiser.__code__.replace(co_name=name, co_qualname=name)
        return raiser
    raise_node = mk_raiser(raiser_name(i, None))
    raise_elem = dict((k, mk_raiser(raiser_name(i, k))) for k in range(len(elem_out)))

    def body(*args):
        rec = _ACTIVE[0]
        if rec is not None:
            rec.add("body", i, args)
        sl = b.sleep[0]
        if sl is not None:
            sl()
        if kind == "parser" and len(args) == 1 and isinstance(args[0], tuple) and args[0] and args[0][0] == "e":
            # element of a multi-output datasource
            k = args[0][2]
            eo = elem_out[k % len(elem_out)] if elem_out else "value"
            e = b.elem_excs.get((i, k % len(elem_out))) if elem_out else None
            if e is not None:
                raise_elem[k % len(elem_out)](e)
            if eo == "none":
                return None
            return ("pv", i, k, sig(args[0]))
        if kind == "parser" and outcome == "none":
            return None
        if exc is not None:
            raise_node(exc)
        if kind == "rule":
            if outcome == "none":
                return None
            if outcome == "notresponse":
                return {"not": "a response"}
            if outcome == "metadata":
                return make_metadata(sig=sig(args), node=i)
            return RULE_RESPONSES[outcome]("KEY_%d" % i, sig=sig(args), node=i)
        if kind in ("datasource", "impl"):
            if nd.get("multi"):
                return [("e", i, k) for k in range(nd.get("nelem", 2))]
            return ("v", i, "ds")
        return node_value(i, args)

    body.__name__ = "n%d" % i
    body.__qualname__ = "n%d" % i
    body.__module__ = modname
    return body


# --------------------------------------------------------------------------
# reference model
# --------------------------------------------------------------------------
def flat_deps(nd):
    """declared dependencies in declaration order: class-level required, then
    required and at-least-one members as written, then class-level optional,
    then optional"""
    out = list(nd.get("cls_req", []))
    for w in nd["written"]:
        out.extend(w if isinstance(w, list) else [w])
    if nd["kind"] != "parser":
        out.extend(nd.get("cls_opt", []))
        out.extend(nd["opt"])
    # dependencies added later with dr.add_dependency: members of the first at-least-one group, bound last
    out.extend(nd.get("late_deps", []))
    return out


def all_deps(nd):
    if nd["kind"] == "point":
        return list(nd["impls"])
    return flat_deps(nd)


def model(spec, in_graph=None, seeded_values=None, store_skips=False):
    """Reference semantics.  Returns per node a dict:
       status: seeded | disabled | outside | missing | invoked
       present, value, invocations (expected list of argument tuples),
       missing (required list, group list), exc (list of (exc-key, strict))"""
    nodes = spec["nodes"]
    n = len(nodes)
    in_graph = set(range(n)) if in_graph is None else set(in_graph)
    seeded_values = seeded_values or {}
    present = {}
    value = {}
    out = []
    for i, nd in enumerate(nodes):
        r = {"status": None, "invocations": [], "missing": None, "raised": []}
        kind = nd["kind"]
        if i in seeded_values:
            present[i] = True
            value[i] = seeded_values[i]
            r["status"] = "seeded"
            out.append(r)
            continue
        if i not in in_graph:
            present[i] = False
            r["status"] = "outside"
            out.append(r)
            continue
        if not nd["enabled"]:
            present[i] = False
            r["status"] = "disabled"
            out.append(r)
            continue
        if kind == "point":
            avail = [j for j in nd["impls"] if present.get(j)]
            if not avail:
                present[i] = False
                r["status"] = "missing"
                r["missing"] = ([], [list(nd["impls"])])
            else:
                present[i] = True
                value[i] = value[avail[-1]]
                r["status"] = "invoked"
            out.append(r)
            continue
        req = list(nd.get("cls_req", [])) + [w for w in nd["written"] if not isinstance(w, list)]
        groups = [list(w) for w in nd["written"] if isinstance(w, list)]
        if nd.get("late_deps") and groups:
            groups[0] = groups[0] + list(nd["late_deps"])
        mr = [d for d in req if not present.get(d)]
        mg = [g for g in groups if not any(present.get(d) for d in g)]
        if mr or mg:
            r["status"] = "missing"
            r["missing"] = (mr, mg)
            if kind == "rule":
                present[i] = True
                value[i] = ("skip-response", i)
            else:
                present[i] = False
            out.append(r)
            continue
        r["status"] = "invoked"
        flat = flat_deps(nd)
        args = tuple(value[d] if present.get(d) else None for d in flat)
        outcome = nd["outcome"]
        if kind in ("datasource", "impl"):
            r["invocations"] = ["<broker>"]
            if outcome in OUTCOMES_FAULT:
                present[i] = False
                r["raised"].append((i, None, outcome))
            else:
                present[i] = True
                value[i] = [("e", i, k) for k in range(nd.get("nelem", 2))] if nd.get("multi") else ("v", i, "ds")
        elif kind == "parser":
            first = req[0]
            dv = value[first]
            if isinstance(dv, list):
                eo = nd.get("elem_outcomes") or ["value"]
                coe = nd.get("continue_on_error", True)
                results = []
                failed = False
                for el in dv:
                    r["invocations"].append((el,))
                    k = el[2] if (isinstance(el, tuple) and el and el[0] == "e") else None
                    if k is not None:
                        o = eo[k % len(eo)]
                        res = ("pv", i, k, sig(el))
                        key = (i, k % len(eo), o)
                    else:
                        # element produced by another parser / a point: the node-level outcome applies
                        o = outcome
                        res = node_value(i, (el,))
                        key = (i, None, o)
                    if o == "value":
                        results.append(res)
                    elif o == "none":
                        pass
                    else:
                        r["raised"].append(key)
                        if o != "skip" and not coe:
                            failed = True
                            break
                if failed or not results:
                    present[i] = False
                else:
                    present[i] = True
                    value[i] = results
            else:
                r["invocations"] = [(dv,)]
                if outcome in OUTCOMES_FAULT:
                    present[i] = False
                    r["raised"].append((i, None, outcome))
                else:
                    present[i] = True
                    value[i] = node_value(i, (dv,))
        else:
            r["invocations"] = [args]
            if outcome in OUTCOMES_FAULT:
                present[i] = False
                r["raised"].append((i, None, outcome))
            elif kind == "rule":
                if outcome == "notresponse":
                    present[i] = False
                    r["raised"].append((i, None, "engine-notresponse"))
                else:
                    present[i] = True
                    value[i] = ("response", outcome, i, sig(args))
            else:
                present[i] = True
                value[i] = node_value(i, args)
        out.append(r)
    for i in range(n):
        out[i]["present"] = present.get(i, False)
        out[i]["value"] = value.get(i)
    return out


def value_matches(expected, got):
    """compare a model value with the real one"""
    if isinstance(expected, tuple) and expected and expected[0] == "response":
        _, outcome, i, s = expected
        if not isinstance(got, Response):
            return False
        if outcome == "none":
            return got.get("type") == "none"
        if outcome == "metadata":
            return got.get("type") == "metadata" and got.get("sig") == s and got.get("node") == i
        t = {"pass": "pass", "fail": "rule", "info": "info", "fingerprint": "fingerprint"}[outcome]
        return got.get("type") == t and got.get("sig") == s and got.get("node") == i and got.get_key() == "KEY_%d" % i
    if isinstance(expected, tuple) and expected and expected[0] == "skip-response":
        return isinstance(got, Response) and got.get("type") == "skip"
    if isinstance(expected, list):
        return isinstance(got, list) and len(got) == len(expected) and all(value_matches(e, g) for e, g in zip(expected, got))
    return expected == got


def arg_sig_value(expected):
    """the object whose signature a dependent computes when it receives `expected`"""
    return expected


def model_sig_fix(spec, m):
    """Rule responses are dicts in reality: dependents compute sig() over the real
    Response.  The model therefore carries, for rule nodes, the canonical text a
    real response would have.  Called after model() to rewrite values bottom-up."""
    return m


def registry_points_allowed(spec, i):
    """Indices of point nodes that an exception of node i may be attributed to:
    every spec the node implements (upwards through dependents) or is built on
    (downwards through dependencies).  Generous for datasources (both directions); consumers only downwards."""
    nodes = spec["nodes"]
    deps = dict((k, set(all_deps(nd))) for k, nd in enumerate(nodes))
    rdeps = dict((k, set()) for k in deps)
    for k, ds in deps.items():
        for d in ds:
            rdeps[d].add(k)
    seen_up, stack = set(), [i]
    while stack:
        x = stack.pop()
        for y in rdeps[x]:
            if y not in seen_up:
                seen_up.add(y)
                stack.append(y)
    seen_dn, stack = set(), [i]
    while stack:
        x = stack.pop()
        for y in deps[x]:
            if y not in seen_dn:
                seen_dn.add(y)
                stack.append(y)
    if nodes[i]["kind"] not in ("datasource", "impl", "point"):
        # a parser / combiner / rule implements no spec: only the specs it is built on (a spec whose implementation merely
        # consumes it is a foreign component)
        seen_up = set()
    return set(k for k in (seen_up | seen_dn) if nodes[k]["kind"] == "point")


def full_graph(b):
    g = {}
    for c in b.comps:
        g.update(dr.get_dependency_graph(c))
    return g


def random_extension(rng, graph):
    """random linear extension of the dependency order (randomised Kahn)"""
    keys = list(graph)
    allnodes = set(keys)
    for v in graph.values():
        allnodes |= set(v)
    indeg = dict((k, set(d for d in graph.get(k, ()) if d in allnodes)) for k in allnodes)
    order = []
    avail = sorted([k for k, v in indeg.items() if not v], key=dr.get_name)
    done = set()
    while avail:
        k = avail.pop(rng.randrange(len(avail)))
        order.append(k)
        done.add(k)
        for m in sorted(indeg, key=dr.get_name):
            if m not in done and m not in avail and k in indeg[m]:
                indeg[m].discard(k)
                if not indeg[m]:
                    avail.append(m)
        # nodes whose deps were all satisfied earlier
    return order
