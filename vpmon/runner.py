"""Runner: tiers, seeds, sharding into child interpreters, watchdogs, merging,
known-finding classification, evidence and verdicts.

A property module (vpmon/props/cNN.py) provides::

    ID, LEVEL, RULE, ASSUMPTIONS, REACH, PLAN = {"quick": {...}, "thorough": {...}}
    directed(tier)            -> list of case specs always executed by shard 0 (optional)
    gen_case(rng, tier, idx)  -> JSON-able case spec
    run_case(spec, ctx)       -> None; reports through ctx (violation/count/...)
    nontrivial(spec)          -> bool  (optional; default True)
    run_shard(ctx)            -> optional override of the default loop
    finish(ctx)               -> optional end-of-shard hook

Verdicts are three valued: held (exit 0), violated (exit 1, VIOLATION line),
inconclusive (exit 2, INCONCLUSIVE line, never a VIOLATION line).
"""
from __future__ import print_function

import hashlib
import importlib
import json
import os
import random
import subprocess
import sys
import time
import traceback

HERE = os.path.dirname(os.path.dirname(os.path.abspath(__file__)))
PY = sys.executable
PROPS = ["C%02d" % i for i in range(1, 21)]


def repo_root():
    return os.path.abspath(os.environ.get("VERIF_REPO_ROOT", "/repo"))


def evidence_dir():
    return os.environ.get("VERIF_EVIDENCE_DIR", os.path.join(HERE, "evidence"))


def replay_dir():
    return os.environ.get("VERIF_REPLAY_DIR", os.path.join(HERE, "replays"))


def jdump(obj, **kw):
    return json.dumps(obj, default=repr, **kw)


def case_hash(spec):
    return hashlib.blake2b(jdump(spec, sort_keys=True).encode("utf-8", "surrogatepass"), digest_size=8).hexdigest()


def load_module(pid):
    return importlib.import_module("vpmon.props.%s" % pid.lower())


# --------------------------------------------------------------------------
# shard side
# --------------------------------------------------------------------------
class Ctx(object):
    """What a property module sees while it runs inside a shard."""

    MAX_VIOL = 40
    MAX_SAMPLES = 4

    def __init__(self, pid, tier, seed, shard, nshards, plan):
        self.pid, self.tier, self.seed, self.shard, self.nshards = pid, tier, seed, shard, nshards
        self.plan = plan
        self.rng = random.Random("%s:%s:%s:%s" % (pid, tier, seed, shard))
        self.evaluations = 0
        self.hashes = set()
        self.counters = {}
        self.sets = {}
        self.samples = []
        self.violations = []
        self.viol_total = 0
        self.mech_counts = {}
        self.current = None
        self.t0 = time.time()
        self.soft_deadline = self.t0 + plan.get("soft_s", 1e9)
        self.truncated = False

    # -- bookkeeping -----------------------------------------------------
    def count(self, key, n=1):
        self.counters[key] = self.counters.get(key, 0) + n

    def seen(self, key, value, cap=200000):
        s = self.sets.setdefault(key, set())
        if len(s) < cap:
            s.add(value)

    def sample(self, obj, force=False):
        if force or len(self.samples) < self.MAX_SAMPLES:
            self.samples.append(obj)

    def note_case(self, spec, nontrivial=True, h=None):
        self.evaluations += 1
        if nontrivial:
            self.hashes.add(h or case_hash(spec))

    def out_of_time(self):
        if time.time() > self.soft_deadline:
            self.truncated = True
            return True
        return False

    def hang_guard(self, seconds, mechanism, witness):
        """Context manager: if the guarded block does not finish within `seconds` (the code under test
        loops for ever and swallows every exception, so it cannot be interrupted from inside), the
        violation is recorded, what the shard has observed so far is written out and the shard exits."""
        ctx = self

        class Guard(object):
            def __enter__(self_):
                import threading

                def fire():
                    ctx.violation(mechanism, witness() if callable(witness) else witness)
                    ctx.truncated = True
                    ctx._extra = {"ok": True, "aborted_by_hang_guard": True}
                    for _ in range(5):
                        try:
                            ctx._flush()
                            break
                        except RuntimeError:
                            time.sleep(0.05)
                    os._exit(0)
                self_.t = threading.Timer(seconds, fire)
                self_.t.daemon = True
                self_.t.start()
                return self_

            def __exit__(self_, *a):
                self_.t.cancel()
                return False
        return Guard()

    def violation(self, mechanism, witness, spec=None):
        """mechanism: short stable key naming *how* the property failed (used
        to match known findings); witness: JSON-able description."""
        self.viol_total += 1
        self.mech_counts[mechanism] = self.mech_counts.get(mechanism, 0) + 1
        if self.mech_counts[mechanism] <= 3 and len(self.violations) < self.MAX_VIOL:
            if spec is None:
                spec = self.current
            self.violations.append({"mechanism": mechanism, "witness": witness, "spec": spec,
                                    "addr": {"seed": self.seed, "shard": self.shard, "tier": self.tier}})


def default_loop(mod, ctx):
    tier = ctx.tier
    directed = getattr(mod, "directed", None)
    nontrivial = getattr(mod, "nontrivial", lambda spec: True)
    if directed is not None and ctx.shard == 0:
        for spec in directed(tier):
            ctx.current = spec
            ctx.count("directed_cases")
            _run_one(mod, spec, ctx, nontrivial)
    n = ctx.plan["cases"]
    first = None
    for idx in range(n):
        if ctx.out_of_time():
            break
        spec = mod.gen_case(ctx.rng, tier, idx)
        if first is None:
            first = spec
        ctx.current = spec
        _run_one(mod, spec, ctx, nontrivial)
    if not ctx.samples and first is not None:
        ctx.sample(first)          # a module that counts sub-evaluations itself: show at least one base case
    ctx.current = None


def _run_one(mod, spec, ctx, nontrivial):
    before = ctx.viol_total
    try:
        res = mod.run_case(spec, ctx)
    except Exception:
        # an exception escaping the harness is a harness problem unless the
        # module classified it itself: report it as inconclusive material
        ctx.count("harness_errors")
        ctx.sets.setdefault("harness_error_texts", set()).add(traceback.format_exc()[-1500:])
        res = None
    nt = res if isinstance(res, bool) else nontrivial(spec)
    ctx.note_case(spec, nt)
    if len(ctx.samples) < ctx.MAX_SAMPLES and nt and ctx.viol_total == before:
        ctx.sample(spec)


def write_result(ctx, out, reach_on, real):
    from vpmon import reach
    result = dict(getattr(ctx, "_extra", {}) or {})
    result.update({
        "evaluations": ctx.evaluations,
        "hashes": sorted(ctx.hashes),
        "counters": dict(ctx.counters),
        "sets": dict((k, sorted(list(v), key=repr)[:5000]) for k, v in list(ctx.sets.items())),
        "set_sizes": dict((k, len(v)) for k, v in list(ctx.sets.items())),
        "samples": list(ctx.samples),
        "violations": list(ctx.violations),
        "viol_total": ctx.viol_total,
        "mech_counts": dict(ctx.mech_counts),
        "truncated": ctx.truncated,
        "reach_on": reach_on,
        "reach_hits": reach.hits(),
        "wall_s": time.time() - ctx.t0,
        "insights_from": real,
    })
    tmp = out + ".tmp"
    with open(tmp, "w") as f:
        f.write(jdump(result))
    os.replace(tmp, out)


def shard_main(argv):
    pid, tier, seed, shard, nshards, out = argv[0], argv[1], int(argv[2]), int(argv[3]), int(argv[4]), argv[5]
    replay = argv[6] if len(argv) > 6 else None
    root = repo_root()
    sys.path.insert(0, root)
    sys.path.insert(1, HERE)
    deps = os.path.join(HERE, ".deps")
    if os.path.isdir(deps):
        sys.path.append(deps)
    import logging
    logging.disable(logging.CRITICAL)
    from vpmon import reach
    mod = load_module(pid)
    plan = dict(mod.PLAN[tier])
    for k in ("cases",):
        if os.environ.get("VERIF_CASES"):
            plan["cases"] = int(os.environ["VERIF_CASES"])
    reach_on = reach.start(getattr(mod, "REACH", []))
    import insights
    real = os.path.dirname(os.path.dirname(os.path.abspath(insights.__file__)))
    ctx = Ctx(pid, tier, seed, shard, nshards, plan)
    ctx._flush = lambda: write_result(ctx, out, reach_on, real)
    result = {"ok": False}
    try:
        if os.path.realpath(real) != os.path.realpath(root):
            raise RuntimeError("insights imported from %s, expected %s" % (real, root))
        if hasattr(mod, "setup"):
            mod.setup(ctx)
        if replay:
            with open(replay) as f:
                doc = json.load(f)
            ctx.current = doc["spec"]
            _run_one(mod, doc["spec"], ctx, getattr(mod, "nontrivial", lambda s: True))
        elif hasattr(mod, "run_shard"):
            mod.run_shard(ctx)
        else:
            default_loop(mod, ctx)
        if hasattr(mod, "finish"):
            mod.finish(ctx)
        result["ok"] = True
    except Exception:
        result["error"] = traceback.format_exc()
    ctx._extra = result
    write_result(ctx, out, reach_on, real)
    return 0


# --------------------------------------------------------------------------
# parent side
# --------------------------------------------------------------------------
def load_known(pid):
    path = os.path.join(HERE, "known_findings.json")
    if not os.path.exists(path):
        return []
    with open(path) as f:
        doc = json.load(f)
    return [e for e in doc.get("findings", []) if e.get("property") == pid]


def run_property(pid, tier, seed, replay=None, verbose=True):
    import tempfile
    mod = load_module(pid)
    plan = dict(mod.PLAN[tier])
    nshards = 1 if replay else int(os.environ.get("VERIF_SHARDS", plan.get("shards", 1)))
    timeout = plan.get("timeout_s", 900)
    t0 = time.time()
    scratch = tempfile.mkdtemp(prefix="vpmon_%s_" % pid)
    procs = []
    env = dict(os.environ)
    env["PYTHONHASHSEED"] = str(plan.get("hashseed", 0))
    env["PYTHONPATH"] = HERE + os.pathsep + repo_root()
    env["PYTHONDONTWRITEBYTECODE"] = "1"
    env["VERIF_SCRATCH"] = scratch
    maxpar = int(os.environ.get("VERIF_PAR", "16"))
    pending = list(range(nshards))
    running = []
    results = {}
    inconclusive = []
    try:
        while pending or running:
            while pending and len(running) < maxpar:
                sh = pending.pop(0)
                out = os.path.join(scratch, "shard%d.json" % sh)
                cmd = [PY, "-m", "vpmon.shard", pid, tier, str(seed), str(sh), str(nshards), out]
                if replay:
                    cmd.append(os.path.abspath(replay))
                log = open(os.path.join(scratch, "shard%d.log" % sh), "wb")
                p = subprocess.Popen(cmd, cwd=HERE, env=env, stdout=log, stderr=subprocess.STDOUT)
                running.append((sh, p, out, time.time(), log))
            time.sleep(0.05)
            still = []
            for sh, p, out, st, log in running:
                rc = p.poll()
                if rc is None:
                    if time.time() - st > timeout:
                        p.kill()
                        p.wait()
                        log.close()
                        inconclusive.append("shard %d exceeded the %ds watchdog" % (sh, timeout))
                    else:
                        still.append((sh, p, out, st, log))
                    continue
                log.close()
                if os.path.exists(out):
                    with open(out) as f:
                        results[sh] = json.load(f)
                    if not results[sh].get("ok"):
                        inconclusive.append("shard %d harness error: %s" % (sh, results[sh].get("error", "")[-2000:]))
                else:
                    with open(os.path.join(scratch, "shard%d.log" % sh), "rb") as f:
                        tail = f.read()[-2000:].decode("utf-8", "replace")
                    inconclusive.append("shard %d died rc=%s: %s" % (sh, rc, tail))
            running = still
    finally:
        for sh, p, out, st, log in running:
            p.kill()
        import shutil
        shutil.rmtree(scratch, ignore_errors=True)

    # ---- merge ----
    evaluations = sum(r["evaluations"] for r in results.values())
    hashes = set()
    counters = {}
    sets = {}
    set_sizes = {}
    samples = []
    violations = []
    mech_counts = {}
    reach_hits = set()
    truncated = False
    for sh in sorted(results):
        r = results[sh]
        hashes.update(r["hashes"])
        for k, v in r["counters"].items():
            counters[k] = counters.get(k, 0) + v
        for k, v in r["sets"].items():
            sets.setdefault(k, set()).update(jdump(x) for x in v)
        for k, v in r["set_sizes"].items():
            set_sizes[k] = set_sizes.get(k, 0) + v
        if len(samples) < 5:
            samples.extend(r["samples"][: 5 - len(samples)])
        violations.extend(r["violations"])
        for k, v in r["mech_counts"].items():
            mech_counts[k] = mech_counts.get(k, 0) + v
        reach_hits.update(r["reach_hits"])
        truncated = truncated or r["truncated"]
    reach_required = list(getattr(mod, "REACH", []))
    reach_missing = [s for s in reach_required if s not in reach_hits] if not replay else []
    if counters.get("harness_errors"):
        inconclusive.append("%d harness errors: %s" % (counters["harness_errors"], list(sets.get("harness_error_texts", []))[:2]))
    if reach_missing and results:
        inconclusive.append("anchor functions never entered: %s" % reach_missing)
    min_eval = plan.get("min_evaluations", 1)
    if not replay and evaluations < min_eval:
        inconclusive.append("only %d evaluations (< %d)" % (evaluations, min_eval))
    for key, minimum in (plan.get("min_counters") or {}).items():
        if not replay and counters.get(key, 0) < minimum:
            inconclusive.append("monitor counter %s=%d below %d: the deciding monitor was not reached" % (key, counters.get(key, 0), minimum))

    # ---- classify ----
    known = load_known(pid)
    known_by_mech = dict((e["mechanism"], e) for e in known if e.get("status") == "known")
    new_viol = [v for v in violations if v["mechanism"] not in known_by_mech]
    new_count = sum(n for m, n in mech_counts.items() if m not in known_by_mech)
    lines = []
    for mech, e in sorted(known_by_mech.items()):
        if mech_counts.get(mech):
            lines.append("KNOWN-FINDING: property=%s %s [mechanism=%s, %d witnesses this run]" % (pid, e["what"], mech, mech_counts[mech]))
    replay_paths = []
    if new_viol:
        rd = os.path.join(replay_dir(), pid)
        os.makedirs(rd, exist_ok=True)
        for v in new_viol[:10]:
            h = case_hash([v["mechanism"], v["spec"]])
            path = os.path.join(rd, "%s_%s.json" % (v["mechanism"][:40].replace("/", "_"), h))
            with open(path, "w") as f:
                f.write(jdump({"property": pid, "mechanism": v["mechanism"], "witness": v["witness"], "spec": v["spec"], "addr": v["addr"]}, indent=1))
            replay_paths.append(path)

    wall = time.time() - t0
    extras = dict(counters)
    extras.pop("harness_errors", None)
    coverage = {
        "evaluations": evaluations,
        "distinct_nontrivial": len(hashes),
        "rule": mod.RULE,
        "samples": samples,
        "shards": len(results),
        "counters": extras,
        "distinct_observed": dict((k, len(v)) for k, v in sets.items() if k != "harness_error_texts"),
        "observed_values": dict((k, [json.loads(x) for x in sorted(v)[:40]]) for k, v in sets.items() if k != "harness_error_texts" and not k.startswith("_")),
        "anchor_functions_required": reach_required,
        "anchor_functions_entered": sorted(reach_hits)[:400],
        "anchor_functions_missing": reach_missing,
        "truncated_by_soft_deadline": truncated,
        "violations_by_mechanism": mech_counts,
        "known_findings_observed": sorted(m for m in mech_counts if m in known_by_mech),
        "verdict": "violated" if new_viol else ("inconclusive" if inconclusive else "held"),
        "inconclusive_reasons": inconclusive,
    }
    if getattr(mod, "EXHAUSTIVE", False):
        coverage["exhaustive"] = True
    evidence = {
        "property_id": pid,
        "tier": tier,
        "seed": seed,
        "level": mod.LEVEL,
        "coverage": coverage,
        "assumptions": list(mod.ASSUMPTIONS),
        "wall_s": round(wall, 2),
        "violations": new_count,
    }
    if not replay:
        os.makedirs(evidence_dir(), exist_ok=True)
        with open(os.path.join(evidence_dir(), "%s.json" % pid), "w") as f:
            f.write(jdump(evidence, indent=1, sort_keys=True))
    # ---- report ----
    if verbose:
        print("%s tier=%s seed=%s shards=%d evaluations=%d distinct_nontrivial=%d wall=%.1fs" % (
            pid, tier, seed, len(results), evaluations, len(hashes), wall))
        keys = sorted(extras)
        print("  observed: " + ", ".join("%s=%s" % (k, extras[k]) for k in keys[:60]))
        if sets:
            print("  distinct: " + ", ".join("%s=%d" % (k, len(v)) for k, v in sorted(sets.items()) if k != "harness_error_texts"))
    for l in lines:
        print(l)
    if new_viol:
        for v in new_viol[:10]:
            print("  violation mechanism=%s witness=%s" % (v["mechanism"], jdump(v["witness"])[:1500]))
        print("  violations by mechanism: %s" % dict((m, n) for m, n in mech_counts.items() if m not in known_by_mech))
        for pth in replay_paths[:1]:
            print("VIOLATION property=%s replay=%s" % (pid, pth))
        return 1
    if inconclusive:
        for r in inconclusive:
            print("INCONCLUSIVE property=%s reason=%s" % (pid, r))
        return 2
    print("HELD property=%s on %d evaluations (%d distinct non-trivial)" % (pid, evaluations, len(hashes)))
    return 0


def main(argv=None):
    import argparse
    ap = argparse.ArgumentParser(prog="check")
    ap.add_argument("property")
    ap.add_argument("--tier", default=os.environ.get("VERIF_TIER") or "quick", choices=["quick", "thorough"])
    ap.add_argument("--replay")
    ap.add_argument("--seed", type=int, default=None)
    a = ap.parse_args(argv)
    seed = a.seed if a.seed is not None else int(os.environ.get("VERIF_SEED", "0") or 0)
    pid = a.property.upper()
    return run_property(pid, a.tier, seed, replay=a.replay)
