"""C13 - package version comparison is RPM's ordering."""
import functools
import itertools
import json
import os
import re

ID = "C13"
LEVEL = "exploration"
RULE = ("(i) differential: _rpm_vercmp and rpm_version_compare against an independent index-based transliteration of "
        "rpmvercmp.c (+ epoch/version/release layering) on random pairs over digits, letters, '. - _ + ~ ^' and non-ASCII "
        "characters, biased to shared prefixes, leading zeros, trailing separators, '~'/'^' at the end, plus RPM's own "
        "rpmvercmp.at rows; (ii) laws: for whole alphabets (6 symbols, all strings up to length 3 quick / 4 thorough) the "
        "full comparison matrix is computed and shown to be the sign matrix of a ranking - which is reflexivity, "
        "antisymmetry, totality and transitivity for EVERY pair and triple of that set; (iii) InstalledRpm objects of one "
        "name: exactly one of < == > and the derived operators, cross-name comparison raises; (iv) newest/oldest/get_max/"
        "get_min on generated InstalledRpms contents return an element no other exceeds/precedes; one evaluation = one pair / "
        "one matrix / one package list; non-trivial = the two strings differ and share a prefix or a segment kind; distinct "
        "by the pair / alphabet / list")
ASSUMPTIONS = [
    "librpm is not installed: the reference is a transliteration of rpmvercmp.c written from the published C source (byte-wise ASCII view, non-ASCII bytes act as separators)",
    "epochs are decimal integers (or absent / '(none)' = 0)",
    "packages are built from dictionaries / JSON lines, so no name-version-release splitting ambiguity is involved",
]
REACH = [
    "insights/parsers/rpm_vercmp.py::_rpm_vercmp",
    "insights/parsers/rpm_vercmp.py::rpm_version_compare",
    "insights/parsers/installed_rpms.py::InstalledRpm.__eq__",
    "insights/parsers/installed_rpms.py::InstalledRpm.__lt__",
    "insights/parsers/installed_rpms.py::InstalledRpm.__le__",
    "insights/parsers/installed_rpms.py::InstalledRpm.__ge__",
    "insights/parsers/installed_rpms.py::InstalledRpm.__gt__",
    "insights/parsers/installed_rpms.py::RpmList.get_max",
    "insights/parsers/installed_rpms.py::RpmList.get_min",
    "insights/parsers/installed_rpms.py::InstalledRpms.parse_content",
]
PLAN = {
    "quick": {"shards": 8, "cases": 180000, "timeout_s": 900, "min_evaluations": 1200000,
              "min_counters": {"pairs_vs_reference": 1200000, "matrix_pairs": 2400000, "operator_sets_checked": 120000, "extrema_checked": 12000}},
    "thorough": {"shards": 16, "cases": 2000000, "timeout_s": 3300, "min_evaluations": 8000000,
                 "min_counters": {"pairs_vs_reference": 8000000, "matrix_pairs": 30000000}},
}
ALPHA = "0019aAbz.-_+~^é中#: @/="
SYMBOLS = "019aAbzZ.-_+~^é#: @"


def isal(c):
    return ('a' <= c <= 'z') or ('A' <= c <= 'Z')


def isdg(c):
    return '0' <= c <= '9'


def ref(a, b):
    """index-based transliteration of rpmvercmp.c"""
    if a == b:
        return 0
    one = [c if ord(c) < 128 else '\x01' for c in a]
    two = [c if ord(c) < 128 else '\x01' for c in b]
    i = j = 0
    n, m = len(one), len(two)

    def at(s, k):
        return s[k] if k < len(s) else ''
    while i < n or j < m:
        while i < n and not (isal(one[i]) or isdg(one[i])) and one[i] not in '~^':
            i += 1
        while j < m and not (isal(two[j]) or isdg(two[j])) and two[j] not in '~^':
            j += 1
        if at(one, i) == '~' or at(two, j) == '~':
            if at(one, i) != '~':
                return 1
            if at(two, j) != '~':
                return -1
            i += 1
            j += 1
            continue
        if at(one, i) == '^' or at(two, j) == '^':
            if i >= n:
                return -1
            if j >= m:
                return 1
            if one[i] != '^':
                return 1
            if two[j] != '^':
                return -1
            i += 1
            j += 1
            continue
        if not (i < n and j < m):
            break
        si, sj = i, j
        if isdg(one[si]):
            while si < n and isdg(one[si]):
                si += 1
            while sj < m and isdg(two[sj]):
                sj += 1
            isnum = True
        else:
            while si < n and isal(one[si]):
                si += 1
            while sj < m and isal(two[sj]):
                sj += 1
            isnum = False
        if i == si:
            return -1
        if j == sj:
            return 1 if isnum else -1
        s1 = "".join(one[i:si])
        s2 = "".join(two[j:sj])
        if isnum:
            s1 = s1.lstrip('0')
            s2 = s2.lstrip('0')
            if len(s1) > len(s2):
                return 1
            if len(s2) > len(s1):
                return -1
        if s1 != s2:
            return -1 if s1 < s2 else 1
        i, j = si, sj
    if i >= n and j >= m:
        return 0
    return -1 if i >= n else 1


def ref_evr(a, b):
    ea, eb = int(a[0]), int(b[0])
    if ea != eb:
        return -1 if ea < eb else 1
    r = ref(a[1], b[1])
    if r:
        return r
    return ref(a[2], b[2])


def gs(rng, maxlen=8):
    return "".join(rng.choice(ALPHA) for _ in range(rng.randint(0, maxlen)))


def gen_pair(rng):
    a = gs(rng)
    r = rng.random()
    if r < 0.35:
        b = gs(rng)
    elif r < 0.6:
        b = a[:rng.randint(0, len(a))] + gs(rng, 3)
    elif r < 0.7:
        b = a.replace("1", "01").replace("9", "009") if rng.random() < 0.5 else a + rng.choice([".", "-", "~", "^", "_", "+", "é"])
    elif r < 0.8:
        b = a + rng.choice(["~", "^", "~1", "^1", "~a", "^a", "0", "a"])
    elif r < 0.9:
        k = rng.randint(0, len(a))
        b = a[:k] + rng.choice(ALPHA) + a[k + 1:]
    else:
        b = rng.choice([".", "-", ""]) + a + rng.choice([".", "", "_"])
    return (a, b) if rng.random() < 0.5 else (b, a)


def at_rows(root):
    p = os.path.join(root, "insights", "tests", "parsers", "test_rpm_vercmp.py")
    rows = []
    if os.path.exists(p):
        with open(p, encoding="utf-8") as f:
            for m in re.finditer(r"^RPMVERCMP\(([^,]*), ([^,]*), (-?\d)\)", f.read(), re.M):
                rows.append((m.group(1), m.group(2), int(m.group(3))))
    return rows


def mkrpm(name, evr):
    from insights.parsers.installed_rpms import InstalledRpm
    d = {"name": name, "version": evr[1], "release": evr[2], "arch": "x86_64"}
    if evr[0] is not None:
        d["epoch"] = evr[0]
    return InstalledRpm(d)


def run_shard(ctx):
    from insights.parsers.installed_rpms import InstalledRpms
    from insights.parsers.rpm_vercmp import _rpm_vercmp as real
    from insights.parsers.rpm_vercmp import rpm_version_compare
    from insights.tests import context_wrap
    from vpmon.runner import repo_root
    rng = ctx.rng
    sgn = lambda x: (x > 0) - (x < 0)
    # (0) RPM's own table
    if ctx.shard == 0:
        rows = at_rows(repo_root())
        for a, b, e in rows:
            ctx.count("rpmvercmp_at_rows")
            if ref(a, b) != e:
                ctx.count("harness_errors")
                ctx.sets.setdefault("harness_error_texts", set()).add("reference disagrees with rpmvercmp.at on %r %r" % (a, b))
            if real(a, b) != e:
                ctx.violation("differs-from-rpmvercmp-at-table", {"a": a, "b": b, "expected": e, "got": real(a, b)}, spec={"pair": [a, b]})
    # (i) differential on random pairs
    n = ctx.plan["cases"]
    for k in range(n):
        a, b = gen_pair(rng)
        r = real(a, b)
        e = ref(a, b)
        ctx.evaluations += 1
        nt = a != b and (a[:1] == b[:1] or (a and b and (isdg(a[0]) == isdg(b[0]))))
        if nt:
            ctx.hashes.add(hash((a, b)) & 0xffffffffffffffff)
        ctx.count("pairs_vs_reference")
        if r != e:
            ctx.violation("differs-from-rpm-reference", {"a": a, "b": b, "got": r, "rpm": e}, spec={"pair": [a, b]})
        if k < 3 and ctx.shard == 0:
            ctx.sample({"pair": [a, b], "result": r})
        if k % 7 == 0:
            # EVR layering and the rich comparison operators
            ea = rng.choice([None, "0", "1", "2", "10", "(none)"])
            eb = rng.choice([ea, ea, None, "0", "1", "2", "10"])
            va, vb = (a, b) if rng.random() < 0.6 else (a, a)
            ra, rb = gen_pair(rng) if rng.random() < 0.7 else ("1", "1")
            A = (ea, va, ra)
            B = (eb, vb, rb)
            pa, pb = mkrpm("pkg", A), mkrpm("pkg", B)
            na = (0 if ea in (None, "(none)") else ea, va, ra)
            nb = (0 if eb in (None, "(none)") else eb, vb, rb)
            exp = ref_evr(na, nb)
            got = rpm_version_compare(pa, pb)
            if sgn(got) != exp:
                ctx.violation("evr-comparison-differs-from-rpm", {"a": A, "b": B, "got": got, "rpm": exp}, spec={"evr": [A, B]})
            ops = {"lt": pa < pb, "eq": pa == pb, "gt": pa > pb, "le": pa <= pb, "ge": pa >= pb, "ne": pa != pb}
            want = {"lt": exp < 0, "eq": exp == 0, "gt": exp > 0, "le": exp <= 0, "ge": exp >= 0, "ne": exp != 0}
            ctx.count("operator_sets_checked")
            if ops != want:
                ctx.violation("rich-comparison-operators-disagree", {"a": A, "b": B, "operators": ops, "expected": want}, spec={"evr": [A, B]})
            if k % 70 == 0:
                other = mkrpm("other", B)
                for opname, op in (("eq", lambda x, y: x == y), ("lt", lambda x, y: x < y), ("ge", lambda x, y: x >= y), ("ne", lambda x, y: x != y)):
                    try:
                        op(pa, other)
                        ctx.violation("cross-name-comparison-did-not-raise", {"operator": opname}, spec={"evr": [A, B]})
                    except ValueError:
                        ctx.count("cross_name_raises")
        if k % 100 == 0:
            # (iv) extrema on a parsed package list
            names = ["pk%d" % i for i in range(rng.randint(1, 3))]
            evrs = {}
            lines = []
            for nm in names:
                base = gs(rng, 5)
                for _ in range(rng.randint(1, 6)):
                    v = base if rng.random() < 0.4 else gen_pair(rng)[0]
                    rel = gen_pair(rng)[1] if rng.random() < 0.6 else "1"
                    ep = rng.choice(["0", "0", "1", "(none)"])
                    evrs.setdefault(nm, []).append((0 if ep == "(none)" else int(ep), v, rel))
                    lines.append(json.dumps({"name": nm, "version": v, "release": rel, "arch": "noarch", "epoch": ep}))
            rng.shuffle(lines)
            rpms = InstalledRpms(context_wrap("\n".join(lines)))
            ctx.evaluations += 1
            if rpms.unparsed:
                ctx.count("lines_unparsed", len(rpms.unparsed))
                continue
            for nm in names:
                for fname in ("get_max", "newest", "get_min", "oldest"):
                    m = getattr(rpms, fname)(nm)
                    me = (int(m.epoch), m.version, m.release)
                    ctx.count("extrema_checked")
                    for o in evrs[nm]:
                        c = ref_evr(o, me)
                        if (fname in ("get_max", "newest") and c > 0) or (fname in ("get_min", "oldest") and c < 0):
                            ctx.violation("extremum-is-not-extreme", {"function": fname, "returned": me, "better": o, "all": evrs[nm]}, spec={"list": evrs[nm]})
                            break
            if rpms.get_max("no-such-package") is not None or rpms.oldest("no-such-package") is not None:
                ctx.violation("extremum-of-absent-package-not-none", {}, spec={"list": []})
            # the same look-ups on another component that mixes RpmList in and fills `packages` itself, in input order
            # (what the yum-list parsers and user components do)
            from insights.parsers.installed_rpms import RpmList

            class OwnList(RpmList):
                def __init__(self, pk):
                    self.packages = pk
            own = OwnList(dict((nm, [mkrpm(nm, e) for e in evrs[nm]]) for nm in names))
            for nm in names:
                for fname in ("get_max", "newest", "get_min", "oldest"):
                    m = getattr(own, fname)(nm)
                    me = (int(m.epoch), m.version, m.release)
                    ctx.count("extrema_checked")
                    for o in evrs[nm]:
                        c = ref_evr(o, me)
                        if (fname in ("get_max", "newest") and c > 0) or (fname in ("get_min", "oldest") and c < 0):
                            ctx.violation("extremum-is-not-extreme", {"function": fname, "returned": me, "better": o, "all": evrs[nm], "component": "RpmList mixin with its own package lists"},
                                          spec={"list": evrs[nm]})
                            break
            for nm in names:
                if len(evrs[nm]) >= 2:
                    cut = rng.randint(1, len(evrs[nm]) - 1)
                    order = list(evrs[nm])
                    rng.shuffle(order)
                    grown_list_check(ctx, order[:cut], order[cut:], rng.choice(["append", "append", "replace-list", "new-dict"]))
    # (ii) laws, exhaustively per alphabet
    maxlen = 3 if ctx.tier == "quick" else 4
    nalph = 6 if ctx.tier == "quick" else 3
    for an in range(nalph):
        if ctx.out_of_time():
            break
        alpha = "".join(rng.sample(SYMBOLS, 6)) if (an or ctx.shard) else "01a.~^"
        strings = [""]
        for L in range(1, maxlen + 1):
            strings.extend("".join(t) for t in itertools.product(alpha, repeat=L))
        order = sorted(strings, key=functools.cmp_to_key(real))
        rank = [0] * len(order)
        for i in range(1, len(order)):
            rank[i] = rank[i - 1] + (1 if real(order[i - 1], order[i]) != 0 else 0)
        bad = 0
        N = len(order)
        for i in range(N):
            a = order[i]
            ri = rank[i]
            for j in range(N):
                c = real(a, order[j])
                rj = rank[j]
                exp = -1 if ri < rj else (1 if ri > rj else 0)
                if c != exp:
                    bad += 1
                    if bad <= 2:
                        # find the law that fails
                        b = order[j]
                        w = {"alphabet": alpha, "a": a, "b": b, "cmp(a,b)": c, "cmp(b,a)": real(b, a), "rank_a": ri, "rank_b": rj}
                        if real(a, a) != 0:
                            mech = "not-reflexive"
                        elif c != -real(b, a):
                            mech = "not-antisymmetric"
                        else:
                            mech = "not-transitive"
                            lo, hi = (i, j) if i < j else (j, i)
                            for k in range(lo, hi + 1):
                                x = order[k]
                                if real(order[lo], x) <= 0 and real(x, order[hi]) <= 0 and real(order[lo], order[hi]) > 0:
                                    w["chain"] = [order[lo], x, order[hi]]
                                    break
                        ctx.violation(mech, w, spec={"alphabet": alpha, "maxlen": maxlen})
        ctx.count("matrix_pairs", N * N)
        ctx.count("alphabets_closed_exhaustively")
        ctx.count("triples_implied", N * N * N)
        ctx.count("distinct_ranks", rank[-1] + 1)
        ctx.evaluations += 1
        ctx.hashes.add(hash(("alphabet", alpha, maxlen)) & 0xffffffffffffffff)
        ctx.seen("alphabets", alpha)
    ctx.hashes = set("%016x" % h if isinstance(h, int) else h for h in ctx.hashes)


def grown_list_check(ctx, first, added, how):
    """A component that mixes RpmList in and fills `packages` step by step: look-ups, then more packages of the same name
    arrive (appended in place / the per-name list replaced), then look-ups again - each answer must be extreme for what the
    component holds at that moment."""
    from insights.parsers.installed_rpms import RpmList

    class OwnList(RpmList):
        def __init__(self, pk):
            self.packages = pk
    first, added = [tuple(x) for x in first], [tuple(x) for x in added]
    own = OwnList({"pk": [mkrpm("pk", e) for e in first]})
    held = list(first)
    for phase in (0, 1):
        for fname in ("get_max", "newest", "get_min", "oldest"):
            m = getattr(own, fname)("pk")
            me = (int(m.epoch), m.version, m.release)
            ctx.count("extrema_checked")
            for o in held:
                c = ref_evr(o, me)
                if (fname in ("get_max", "newest") and c > 0) or (fname in ("get_min", "oldest") and c < 0):
                    ctx.violation("extremum-is-not-extreme", {"function": fname, "returned": me, "better": o, "all": held, "after": "packages of this name were added to the component (%s) after an earlier look-up" % how if phase else "first look-up"},
                                  spec={"list": first, "then": added, "how": how})
                    return
        if phase == 0:
            new = [mkrpm("pk", e) for e in added]
            if how == "append":
                own.packages["pk"].extend(new)
            elif how == "replace-list":
                own.packages["pk"] = own.packages["pk"] + new
            else:
                own.packages = {"pk": own.packages["pk"] + new}
            held = held + added
            ctx.count("package_lists_grown_between_lookups")


def run_case(spec, ctx):
    """replay"""
    from insights.parsers.rpm_vercmp import _rpm_vercmp as real
    if "pair" in spec:
        a, b = spec["pair"]
        if real(a, b) != ref(a, b):
            ctx.violation("differs-from-rpm-reference", {"a": a, "b": b, "got": real(a, b), "rpm": ref(a, b)})
    elif "evr" in spec:
        from insights.parsers.rpm_vercmp import rpm_version_compare
        sgn = lambda x: (x > 0) - (x < 0)
        A, B = [tuple(x) for x in spec["evr"]]
        pa, pb = mkrpm("pkg", A), mkrpm("pkg", B)
        na = (0 if A[0] in (None, "(none)") else A[0], A[1], A[2])
        nb = (0 if B[0] in (None, "(none)") else B[0], B[1], B[2])
        exp = ref_evr(na, nb)
        got = rpm_version_compare(pa, pb)
        if sgn(got) != exp:
            ctx.violation("evr-comparison-differs-from-rpm", {"a": A, "b": B, "got": got, "rpm": exp})
        ops = {"lt": pa < pb, "eq": pa == pb, "gt": pa > pb, "le": pa <= pb, "ge": pa >= pb, "ne": pa != pb}
        want = {"lt": exp < 0, "eq": exp == 0, "gt": exp > 0, "le": exp <= 0, "ge": exp >= 0, "ne": exp != 0}
        if ops != want:
            ctx.violation("rich-comparison-operators-disagree", {"a": A, "b": B, "operators": ops, "expected": want})
    elif "list" in spec and spec.get("then"):
        grown_list_check(ctx, spec["list"], spec["then"], spec.get("how", "append"))
    elif "list" in spec and spec["list"]:
        from insights.parsers.installed_rpms import RpmList
        evs = [tuple(x) for x in spec["list"]]

        class OwnList(RpmList):
            def __init__(self, pk):
                self.packages = pk
        own = OwnList({"pk": [mkrpm("pk", e) for e in evs]})
        for fname in ("get_max", "get_min"):
            m = getattr(own, fname)("pk")
            me = (int(m.epoch), m.version, m.release)
            for o in evs:
                c = ref_evr(o, me)
                if (fname == "get_max" and c > 0) or (fname == "get_min" and c < 0):
                    ctx.violation("extremum-is-not-extreme", {"function": fname, "returned": me, "better": o, "all": evs})
                    break
    elif "alphabet" in spec:
        import functools
        import itertools
        alpha, maxlen = spec["alphabet"], spec.get("maxlen", 3)
        strings = [""]
        for L in range(1, maxlen + 1):
            strings.extend("".join(t) for t in itertools.product(alpha, repeat=L))
        order = sorted(strings, key=functools.cmp_to_key(real))
        rank = [0] * len(order)
        for i in range(1, len(order)):
            rank[i] = rank[i - 1] + (1 if real(order[i - 1], order[i]) != 0 else 0)
        for i, a in enumerate(order):
            for j, b in enumerate(order):
                exp = -1 if rank[i] < rank[j] else (1 if rank[i] > rank[j] else 0)
                if real(a, b) != exp:
                    ctx.violation("not-a-total-order-on-this-alphabet", {"alphabet": alpha, "a": a, "b": b, "cmp(a,b)": real(a, b), "cmp(b,a)": real(b, a)})
                    return True
    return True
