"""C07 - filters: union over registrations independent of look-up order; content is a matching sub-sequence."""
import itertools
import os
import shutil
import sys
import tempfile
import types

ID = "C07"
LEVEL = "exploration"
RULE = ("monitor A: generated spec graphs (registry points with filterable/raw flags, 1-3 implementation classes, helper "
        "datasources, datasources built on other specs, parsers on points/implementations, combiners on parsers) and "
        "random histories of 5-40 steps mixing add_filter(target, str|list|set, max_match) on any node - incl. invalid "
        "registrations - with get_filters(datasource, with_matches) look-ups; a model that only keeps the accepted "
        "registrations predicts the filter set after every look-up (budgets: several registrations of one string on one "
        "component give the largest). monitor B: lines with unique ids and filters over an "
        "alphabet with regex metacharacters, leading '-'/'--', blanks, quotes, backslashes and non-ASCII, budgets 1-5 or "
        "default, pushed through the host pre-filter (real grep child, file and command providers) + cleaner allow-list, "
        "the archive post-filter, Cleaner.clean_content(allowlist) and filters.apply_filters; one evaluation = one "
        "history / one (content, filters, path); non-trivial = a look-up happened before a later registration that "
        "affects it (A) / some line matches and some does not (B); distinct by hash of the case")
ASSUMPTIONS = [
    "filter strings contain no NUL and no newline (cannot be passed in argv / cannot occur inside a line); lines contain no str.splitlines() break characters",
    "how budgets registered on different components combine is not fixed by the statement: the reported budget must be the one in force on a contributing component, which for a string registered several times on the same component is the largest (each registration is a promise that up to that many matching lines survive)",
    "a dropped matching line is legitimate only if for every filter it contains at least budget(filter) kept later lines contain that filter (implied by any correct budget accounting)",
    "filtering is globally enabled (INSIGHTS_FILTERS_ENABLED unset)",
]
REACH = [
    "insights/core/filters.py::add_filter",
    "insights/core/filters.py::get_filters",
    "insights/core/filters.py::apply_filters",
    "insights/cleaner/filters.py::AllowFilter.parse_line",
    "insights/cleaner/filters.py::AllowFilter.filter_content",
    "insights/core/spec_factory.py::TextFileProvider.create_args",
    "insights/core/spec_factory.py::CommandOutputProvider.create_args",
    "insights/core/spec_factory.py::ContentProvider._clean_content",
    "insights/cleaner/__init__.py::Cleaner.clean_content",
]
PLAN = {
    "quick": {"shards": 8, "cases": 1300, "timeout_s": 900, "min_evaluations": 10000,
              "min_counters": {"lookups_compared": 40000, "registrations_accepted": 20000, "registrations_rejected": 2500,
                               "content_paths_checked": 12500, "grep_children_observed": 4000}},
    "thorough": {"shards": 16, "cases": 14000, "timeout_s": 3300, "min_evaluations": 70000,
                 "min_counters": {"lookups_compared": 300000}},
}
_UID = itertools.count()
FILTER_ALPHABET = ["a", "b", "ab", "err", ".", "*", ".*", "[", "]", "[a-z]", "^", "$", "\\", "\\n", "(", ")", "|", "+", "?",
                   "-", "--", "-v", "-e", "--help", " ", "  x", "'", "\"", "a b", "é", "日本", "%s", "{}", "-x y", "--foo=bar"]


def directed(tier):
    return [
        # F4: look-up, registration on the spec above, look-up again
        {"mode": "history", "points": [{"filterable": True, "raw": False}], "classes": [{"0": {"via": None}}], "extra_ds": [],
         "parsers": [], "combiners": [], "steps": [["get", ["impl", 0, 0], False], ["add", ["point", 0], ["alpha"], 10000],
                                                   ["get", ["impl", 0, 0], False], ["get", ["point", 0], True]]},
        # F4b: filters with leading dashes reach the real grep child
        {"mode": "content", "lines": ["x --foo y", "nothing here", "tail -v end", "--foo again", "plain"], "filters": {"--foo": 10000, "-v": 10000},
         "paths": ["host_file", "host_command", "archive", "cleaner", "apply"]},
    ]


# --------------------------------------------------------------------------
def gen_case(rng, tier, idx):
    return gen_history(rng, tier) if idx % 2 == 0 else gen_content(rng, tier)


def gen_history(rng, tier):
    npts = rng.randint(1, 4)
    points = [{"filterable": rng.random() < 0.75, "raw": rng.random() < 0.12} for _ in range(npts)]
    classes = []
    for ci in range(rng.randint(1, 3)):
        m = {}
        for k in range(npts):
            if rng.random() < 0.8:
                m[str(k)] = {"via": rng.choice([None, None, "helper", "helper2"])}
        classes.append(m)
    # datasources built on another spec and implementing a later spec (foreach-style)
    extra = []
    for k in range(1, npts):
        if rng.random() < 0.4:
            extra.append({"implements": k, "built_on": rng.randrange(k)})
    nparsers = rng.randint(1, 5)
    parsers = []
    for _ in range(nparsers):
        t = rng.random()
        if t < 0.7:
            deps = [["point", rng.randrange(npts)]]
        elif t < 0.85:
            ci = rng.randrange(len(classes))
            ks = sorted(classes[ci])
            deps = [["impl", ci, int(rng.choice(ks))]] if ks else [["point", rng.randrange(npts)]]
        else:
            deps = [["point", rng.randrange(npts)] for _ in range(2)]
        parsers.append(deps)
    combiners = [[rng.randrange(nparsers) for _ in range(rng.randint(1, 2))] for _ in range(rng.randint(0, 3))]
    targets = [["point", k] for k in range(npts)]
    for ci, m in enumerate(classes):
        for ks in m:
            targets.append(["impl", ci, int(ks)])
            if m[ks]["via"]:
                targets.append(["helper", ci, int(ks)])
    for e in range(len(extra)):
        targets.append(["extra", e])
    ds_targets = list(targets)
    targets += [["parser", i] for i in range(nparsers)] + [["combiner", i] for i in range(len(combiners))]
    steps = []
    pool = rng.sample(FILTER_ALPHABET, 6) + ["f%d" % i for i in range(4)]
    for _ in range(rng.randint(5, 40 if tier == "quick" else 80)):
        if rng.random() < 0.5:
            form = rng.random()
            if form < 0.08:
                pats = rng.choice([[""], 5, None, ["ok", ""], ("t",), []])
            elif form < 0.4:
                pats = rng.choice(pool)
            elif form < 0.8:
                pats = rng.sample(pool, rng.randint(1, 3))
            else:
                pats = {"__set__": rng.sample(pool, rng.randint(1, 3))}
            mm = rng.choice([10000, 10000, 1, 2, 5, 50]) if rng.random() > 0.06 else rng.choice([0, -1, None, "3", 2.0, True])
            steps.append(["add", rng.choice(targets), pats, mm])
        else:
            steps.append(["get", rng.choice(ds_targets), rng.random() < 0.5])
    return {"mode": "history", "points": points, "classes": classes, "extra_ds": extra, "parsers": parsers,
            "combiners": combiners, "steps": steps,
            "combiner_points": dict((str(i), [rng.randrange(npts)]) for i in range(len(combiners)) if rng.random() < 0.5)}


def gen_content(rng, tier):
    nf = rng.randint(1, 4)
    pool = rng.sample(FILTER_ALPHABET, min(len(FILTER_ALPHABET), nf + 3))
    flt = {}
    for f in pool[:nf]:
        flt[f] = rng.choice([10000, 10000, 1, 2, 3, 5])
    words = pool + ["zzz", "qq", "lorem", "ipsum", "0", "#", "==", "/var/log", "tab\there"]
    lines = []
    for i in range(rng.randint(0, 30)):
        if rng.random() < 0.08:
            lines.append("")
            continue
        toks = [rng.choice(words) for _ in range(rng.randint(0, 4))]
        sep = rng.choice([" ", "", ":", ", "])
        lines.append(sep.join(toks))
    paths = ["host_file", "host_command", "archive", "cleaner", "apply"]
    return {"mode": "content", "lines": lines, "filters": flt, "paths": paths}


# --------------------------------------------------------------------------
# monitor A
# --------------------------------------------------------------------------
def run_history(spec, ctx):
    from insights.core import dr, filters
    from insights.core.context import HostContext
    from insights.core.plugins import combiner, datasource, parser
    from insights.core.spec_factory import RegistryPoint, SpecSet
    from vpmon import gen_graph as G
    uid = next(_UID)
    modname = "vpmon_c07.m%d" % uid
    sys.modules[modname] = types.ModuleType(modname)
    created = []
    try:
        npts = len(spec["points"])
        dct = {"__module__": modname}
        for k, p in enumerate(spec["points"]):
            dct["p%d" % k] = RegistryPoint(filterable=p["filterable"], raw=p["raw"])
        S = type("S%d" % uid, (SpecSet,), dct)
        pts = [getattr(S, "p%d" % k) for k in range(npts)]
        created.extend(pts)
        node = {}            # target key (tuple) -> component
        kind = {}            # component -> "ds"|"other"
        edges_up = {}        # datasource -> set of dependents (all kinds)
        deps_of = {}

        def reg(key, comp, deps, is_ds):
            node[key] = comp
            kind[comp] = is_ds
            deps_of[comp] = list(deps)
            for d in deps:
                edges_up.setdefault(d, set()).add(comp)
            created.append(comp)

        def mkds(name, deps):
            def f(broker):
                return name
            f.__name__ = f.__qualname__ = name
            f.__module__ = modname
            return datasource(*deps)(f)
        for k in range(npts):
            reg(("point", k), pts[k], [], True)
        for ci, m in enumerate(spec["classes"]):
            body = {"__module__": modname}
            for ks, info in sorted(m.items()):
                k = int(ks)
                deps = [HostContext]
                if info["via"]:
                    h = mkds("h%d_%d_%d" % (uid, ci, k), [HostContext])
                    reg(("helper", ci, k), h, [], True)
                    if info["via"] == "helper2":
                        h2 = mkds("hh%d_%d_%d" % (uid, ci, k), [h])
                        reg(("helper2", ci, k), h2, [h], True)
                        deps = [h2]
                    else:
                        deps = [h]
                d = mkds("i%d_%d_%d" % (uid, ci, k), deps)
                reg(("impl", ci, k), d, [x for x in deps if x is not HostContext], True)
                body["p%d" % k] = d
            type("I%d_%d" % (uid, ci), (S,), body)
            for ks in m:
                k = int(ks)
                edges_up.setdefault(node[("impl", ci, k)], set()).add(pts[k])
                deps_of[pts[k]].append(node[("impl", ci, k)])
        for e, info in enumerate(spec["extra_ds"]):
            d = mkds("x%d_%d" % (uid, e), [pts[info["built_on"]]])
            reg(("extra", e), d, [pts[info["built_on"]]], True)
            type("X%d_%d" % (uid, e), (S,), {"__module__": modname, "p%d" % info["implements"]: d})
            edges_up.setdefault(d, set()).add(pts[info["implements"]])
            deps_of[pts[info["implements"]]].append(d)
        pcomps = []
        for i, deps in enumerate(spec["parsers"]):
            dd = [node[tuple(d)] for d in deps]

            def P(v, *a):
                return v
            P.__name__ = P.__qualname__ = "P%d_%d" % (uid, i)
            P.__module__ = modname
            c = parser(*dd)(P)
            reg(("parser", i), c, dd, False)
            pcomps.append(c)
        for i, deps in enumerate(spec["combiners"]):
            dd = [pcomps[j] for j in deps]
            # a combiner built on parsers AND directly on specs: a filter added through it reaches the specs on both levels
            dd += [pts[k] for k in (spec.get("combiner_points") or {}).get(str(i), []) if k < len(pts)]

            def C(*a):
                return a
            C.__name__ = C.__qualname__ = "C%d_%d" % (uid, i)
            C.__module__ = modname
            c = combiner(*dd)(C)
            reg(("combiner", i), c, dd, False)

        # ---- model -------------------------------------------------------
        def filterable(c):
            return bool(getattr(dr.get_delegate(c), "filterable", False))

        def is_raw(c):
            return bool(getattr(dr.get_delegate(c), "raw", False))

        def explicitly_unfilterable(c):
            return hasattr(c, "filterable") and c.filterable is False

        def upward(ds):
            """datasources whose filters are in force for ds: itself and every datasource that is built on it,
            through datasource-only chains that are not explicitly non-filterable"""
            if explicitly_unfilterable(ds):
                return set()
            seen, stack = set([ds]), [ds]
            while stack:
                x = stack.pop()
                for y in edges_up.get(x, ()):
                    if kind.get(y) and y not in seen and not explicitly_unfilterable(y):
                        seen.add(y)
                        stack.append(y)
            return seen

        def nearest_ds(c):
            if kind.get(c):
                return set([c])
            out = set()
            for d in deps_of.get(c, ()):
                out |= nearest_ds(d)
            return out
        registrations = []        # (set of datasources it landed on, {pattern: budget})

        def model_add(target, pats, mm):
            """returns True iff the registration must be accepted"""
            if mm is None or type(mm) is not int or mm <= 0:
                return False
            if kind.get(target):
                if is_raw(target) or not filterable(target):
                    return False
                land = set([target])
            else:
                nd = nearest_ds(target)
                land = set(d for d in nd if filterable(d))
                if nd and not land:
                    return False
            if not isinstance(pats, (str, list, set)):
                return False if land else None       # nothing to register on: the library does not look at the patterns
            plist = [pats] if isinstance(pats, str) else list(pats)
            if land and any(not p for p in plist):
                return False
            if land and not all(isinstance(p, str) for p in plist):
                return None
            if land:
                registrations.append((land, dict((p, mm) for p in plist)))
            return True

        def model_get(ds):
            up = upward(ds)
            per = {}
            for land, pats in registrations:
                for c in land & up:
                    for p, mm in pats.items():
                        per.setdefault(p, {})[c] = max(mm, per.get(p, {}).get(c, 0))
            # registrations of one string on one component combine to the largest budget (add_filter documents and
            # get_filters reports "the max match count specified by add_filter"); across components nothing is fixed
            return dict((p, set(v.values())) for p, v in per.items())
        nt = False
        looked = set()
        for stepno, step in enumerate(spec["steps"]):
            if step[0] == "add":
                _, tk, pats, mm = step
                target = node.get(tuple(tk))
                if target is None:
                    continue
                real_pats = set(pats["__set__"]) if isinstance(pats, dict) else (tuple(pats) if False else pats)
                before = dict((k, dict(v)) for k, v in filters.FILTERS.items() if k in kind)
                exp = model_add(target, real_pats, mm)
                raised = None
                try:
                    filters.add_filter(target, real_pats, mm)
                except Exception as ex:
                    raised = ex
                if exp is None:
                    ctx.count("registrations_unjudged")
                    # resynchronise the model conservatively: nothing is compared for this step
                    if raised is None and isinstance(real_pats, (list, set)):
                        pass
                    continue
                if exp and raised is not None:
                    ctx.violation("valid-registration-rejected", {"target": tk, "patterns": repr(real_pats), "max_match": repr(mm), "exc": repr(raised)})
                    registrations.pop()
                elif not exp and raised is None:
                    ctx.violation("invalid-registration-accepted", {"target": tk, "patterns": repr(real_pats), "max_match": repr(mm)})
                elif not exp:
                    ctx.count("registrations_rejected")
                    after = dict((k, dict(v)) for k, v in filters.FILTERS.items() if k in kind)
                    if dict((k, v) for k, v in after.items() if v) != dict((k, v) for k, v in before.items() if v):
                        ctx.violation("rejected-registration-changed-the-registry", {"target": tk, "patterns": repr(real_pats), "max_match": repr(mm)})
                else:
                    ctx.count("registrations_accepted")
                    if looked:
                        nt = True
            else:
                _, tk, with_matches = step
                ds = node.get(tuple(tk))
                if ds is None:
                    continue
                got = filters.get_filters(ds, with_matches)
                exp = model_get(ds)
                ctx.count("lookups_compared")
                looked.add(tuple(tk))
                gk = set(got.keys()) if with_matches else set(got)
                if (with_matches and not isinstance(got, dict)) or (not with_matches and not isinstance(got, set)):
                    ctx.violation("lookup-returns-wrong-container", {"with_matches": with_matches, "type": type(got).__name__})
                if gk != set(exp):
                    missing = sorted(set(exp) - gk)
                    extra = sorted(gk - set(exp))
                    mech = "registered-filter-missing-from-lookup" if missing else "lookup-returns-unregistered-filter"
                    ctx.violation(mech, {"datasource": tk, "missing": missing, "extra": extra,
                                         "steps_so_far": spec["steps"][:stepno + 1][-6:]})
                elif with_matches:
                    for p, mm in got.items():
                        if mm not in exp[p]:
                            ctx.violation("budget-not-among-registered-budgets", {"datasource": tk, "filter": p, "got": mm, "registered": sorted(exp[p])})
                    ctx.count("budgets_compared", len(got))
                if exp:
                    ctx.count("lookups_with_nonempty_result")
        return nt
    finally:
        for c in created:
            G._unregister(c)
            filters.FILTERS.pop(c, None)
        filters._CACHE.clear()
        sys.modules.pop(modname, None)


# --------------------------------------------------------------------------
# monitor B
# --------------------------------------------------------------------------
def check_content(name, tagged_in, out_lines, flt, ctx, spec):
    """tagged_in: list of (id, line) ; out_lines: lines as returned (ids are embedded at line start)"""
    ids_in = [i for i, l in tagged_in]
    by_id = dict(tagged_in)
    pos = dict((i, n) for n, i in enumerate(ids_in))
    kept = []
    last = -1
    for l in out_lines:
        if l == "":
            continue          # blank lines are anonymous; they may be kept
        tag = l.split("|", 1)[0]
        if not (tag.startswith("#") and tag[1:].isdigit() and int(tag[1:]) in by_id and by_id[int(tag[1:])] == l):
            ctx.violation("output-line-not-from-input", {"path": name, "line": l[:200], "filters": flt}, spec=spec)
            return
        i = int(tag[1:])
        if pos[i] <= last:
            ctx.violation("output-order-differs-from-input", {"path": name, "line": l[:100]}, spec=spec)
            return
        last = pos[i]
        kept.append(i)
        if not any(f in l for f in flt):
            ctx.violation("kept-line-matches-no-filter", {"path": name, "line": l[:200], "filters": flt}, spec=spec)
    keptset = set(kept)
    for f in flt:
        m = [i for i, l in tagged_in if l and f in l]
        if m and m[-1] not in keptset:
            ctx.violation("last-line-matching-a-filter-dropped", {"path": name, "filter": f, "line": by_id[m[-1]][:200], "filters": flt,
                                                                    "output": out_lines[:8]}, spec=spec)
    for i, l in tagged_in:
        if l and i not in keptset:
            fs = [f for f in flt if f in l]
            if not fs:
                continue
            for f in fs:
                later = sum(1 for j in kept if pos[j] > pos[i] and f in by_id[j])
                if later < flt[f]:
                    ctx.violation("matching-line-dropped-before-budget-used-up", {"path": name, "filter": f, "budget": flt[f], "kept_later": later,
                                                                                   "line": l[:200], "filters": flt}, spec=spec)
                    break
    ctx.count("content_paths_checked")
    ctx.count("lines_kept", len(kept))
    ctx.count("lines_dropped", len([1 for i, l in tagged_in if l and i not in keptset]))


def run_content(spec, ctx):
    from insights.cleaner import Cleaner
    from insights.cleaner.filters import AllowFilter
    from insights.core import dr, filters
    from insights.core.context import HostArchiveContext, HostContext
    from insights.core.exceptions import ContentException
    from insights.core import spec_factory as sf
    from vpmon import audit
    from vpmon import gen_graph as G
    uid = next(_UID)
    modname = "vpmon_c07.c%d" % uid
    sys.modules[modname] = types.ModuleType(modname)
    created = []
    base = tempfile.mkdtemp(prefix="vpc07_")
    flt = dict(spec["filters"])
    # unique ids at line start, in an alphabet ('#', digits, '|') disjoint from every filter
    tagged = [(n, ("#%d|%s" % (n, l)) if l != "" else "") for n, l in enumerate(spec["lines"])]
    lines = [l for n, l in tagged]
    try:
        root = os.path.join(base, "root")
        os.makedirs(os.path.join(root, "etc"))
        fpath = os.path.join(root, "etc", "data.txt")
        with open(fpath, "w", encoding="utf-8") as f:
            f.write("".join(l + "\n" for l in lines))
        S = type("S%d" % uid, (sf.SpecSet,), {"__module__": modname, "f": sf.RegistryPoint(filterable=True), "c": sf.RegistryPoint(filterable=True),
                                               "a": sf.RegistryPoint(filterable=True), "nofilter": sf.RegistryPoint(filterable=True),
                                               "nofilter_cmd": sf.RegistryPoint(filterable=True)})
        I = type("I%d" % uid, (S,), {"__module__": modname,
                                     "f": sf.simple_file("/etc/data.txt", context=HostContext),
                                     "c": sf.simple_command("/bin/cat %s" % fpath),
                                     "a": sf.simple_file("/etc/data.txt", context=HostArchiveContext),
                                     "nofilter": sf.simple_file("/etc/data.txt", context=HostContext),
                                     "nofilter_cmd": sf.simple_command("/bin/cat %s" % fpath)})
        for n in ("f", "c", "a", "nofilter", "nofilter_cmd"):
            created.extend([getattr(S, n), getattr(I, n)])
        for n in ("f", "c", "a"):
            for pat, mm in flt.items():
                filters.add_filter(getattr(S, n), pat, mm)
        cleaner = Cleaner(None, {}, fqdn="vphost.example.com")
        anymatch = any(l and any(f in l for f in flt) for l in lines)
        nomatch = any(l and not any(f in l for f in flt) for l in lines)
        for path in spec["paths"]:
            if path in ("host_file", "host_command"):
                br = dr.Broker()
                br[HostContext] = HostContext(root=root)
                br["cleaner"] = cleaner
                comp = I.f if path == "host_file" else I.c
                with audit.record() as events:
                    dr.run(dr.get_dependency_graph(comp), broker=br)
                    prov = br.get(comp)
                    out = None
                    err = None
                    if prov is not None:
                        try:
                            raw = list(prov.content)
                            out = prov._clean_content()
                        except Exception as ex:
                            err = ex
                greps = [e for e in events if e[0] == "popen" and any(os.path.basename(a) == "grep" for a in strip_to(e[1])[:1])]
                ctx.count("grep_children_observed", len(greps))
                if prov is None:
                    ctx.violation("filtered-spec-not-collected-though-filters-exist", {"path": path, "exceptions": repr(dict(br.exceptions))[:300]}, spec=spec)
                    continue
                if err is not None:
                    if anymatch:
                        ctx.violation("content-raised-though-lines-match", {"path": path, "exc": repr(err)[:300], "filters": flt}, spec=spec)
                    else:
                        ctx.count("content_empty_as_expected")
                    continue
                # the pre-filter alone (before budgets): every matching line must be there
                check_content(path + ":prefilter", tagged, raw, dict((f, 10 ** 9) for f in flt), ctx, spec)
                check_content(path, tagged, out, flt, ctx, spec)
                # what is written to the archive is the cleaned content
                dst = os.path.join(base, "out_" + path)
                prov.loaded = True
                try:
                    prov.write(dst)
                    with open(dst, encoding="utf-8") as fh:
                        written = fh.read().split("\n")
                    check_content(path + ":written", tagged, written, flt, ctx, spec)
                except ContentException:
                    pass
            elif path == "archive":
                br = dr.Broker()
                br[HostArchiveContext] = HostArchiveContext(root)
                dr.run(dr.get_dependency_graph(I.a), broker=br)
                prov = br.get(I.a)
                if prov is None:
                    ctx.violation("filtered-spec-not-loaded-from-archive", {"exceptions": repr(dict(br.exceptions))[:300]}, spec=spec)
                    continue
                check_content(path, tagged, list(prov.content), flt, ctx, spec)
                # the same stored file as an entry of a serialized archive (what `insights collect` writes and
                # hydration loads): the analysing process' filters apply there as well
                from insights.core.context import SerializedArchiveContext
                from insights.core.spec_factory import SerializedOutputProvider
                sprov = SerializedOutputProvider("etc/data.txt", root=root, ctx=SerializedArchiveContext(root), ds=S.a)
                ctx.count("loads_as_serialized_archive_entry")
                check_content("serialized-archive", tagged, list(sprov.content), flt, ctx, spec)
            elif path == "cleaner":
                out = cleaner.clean_content(list(lines), allowlist=dict(flt))
                check_content(path, tagged, out, flt, ctx, spec)
                out2 = AllowFilter.filter_content(list(lines), dict(flt))
                check_content("filter_content", tagged, out2, flt, ctx, spec)
                # filters are matched against the ORIGINAL line: a line whose only match is text the cleaner rewrites afterwards
                # (the secret behind a 'password' key is always masked) is kept - masked, but kept
                import re as _re
                for f_ in flt:
                    if _re.match(r"^[a-zA-Z0-9_]{2,}$", f_) and "password" not in f_.lower():
                        probe = ["#901|zzz qq", "#902|svc password: %s" % f_, "#903|lorem"]
                        got_ = cleaner.clean_content(list(probe), allowlist={f_: flt[f_]})
                        ctx.count("lines_matching_only_through_rewritten_text")
                        if not any(l_.startswith("#902|") for l_ in got_):
                            ctx.violation("matching-line-dropped-before-budget-used-up", {"path": "cleaner", "filter": f_, "budget": flt[f_], "line": probe[1],
                                                                                           "output": got_[:3], "note": "the match is in text the cleaner masks afterwards"}, spec=spec)
                        break
            elif path == "apply":
                out = list(filters.apply_filters(S.f, list(lines)))
                check_content(path, tagged, out, dict((f, 10 ** 9) for f in flt), ctx, spec)
        # loading content must not consume the registry: look-ups still return what was registered, and a second
        # load of the same spec (next file of a glob, next archive) keeps the same lines
        for n in ("f", "c", "a"):
            ctx.count("lookups_after_content_load")
            for comp in (getattr(S, n), getattr(I, n)):
                now = filters.get_filters(comp, True)
                if dict(now) != dict(flt):
                    ctx.violation("content-load-changed-the-registered-filters", {"spec": n, "registered": flt, "lookup_after_load": dict(now)}, spec=spec)
        if "archive" in spec["paths"]:
            br = dr.Broker()
            br[HostArchiveContext] = HostArchiveContext(root)
            dr.run(dr.get_dependency_graph(I.a), broker=br)
            prov = br.get(I.a)
            if prov is not None:
                check_content("archive:second-load", tagged, list(prov.content), flt, ctx, spec)
        if "host_file" in spec["paths"]:
            br = dr.Broker()
            br[HostContext] = HostContext(root=root)
            br["cleaner"] = Cleaner(None, {}, fqdn="vphost.example.com")
            dr.run(dr.get_dependency_graph(I.f), broker=br)
            prov = br.get(I.f)
            if prov is not None:
                try:
                    out2 = prov._clean_content()
                except Exception:
                    out2 = None
                if out2 is not None:
                    check_content("host_file:second-collection", tagged, out2, flt, ctx, spec)
                elif anymatch:
                    ctx.violation("content-raised-though-lines-match", {"path": "host_file:second-collection", "filters": flt}, spec=spec)
        # no filter registered + filterable + host: not collected at all, nothing opened or executed
        for comp, what in ((I.nofilter, "file"), (I.nofilter_cmd, "command")):
            br = dr.Broker()
            br[HostContext] = HostContext(root=root)
            with audit.record() as events:
                dr.run(dr.get_dependency_graph(comp), broker=br)
            if comp in br:
                ctx.violation("filterable-spec-without-filters-collected-on-host", {"kind": what}, spec=spec)
            for e in events:
                if (e[0] == "open" and e[1] == fpath) or e[0] == "popen":
                    ctx.violation("filterable-spec-without-filters-touched-its-source", {"kind": what, "event": repr(e)[:200]}, spec=spec)
            ctx.count("unfiltered_filterable_specs_checked")
        return anymatch and nomatch
    finally:
        for c in created:
            G._unregister(c)
            filters.FILTERS.pop(c, None)
        filters._CACHE.clear()
        sys.modules.pop(modname, None)
        shutil.rmtree(base, ignore_errors=True)


def strip_to(argv):
    argv = list(argv)
    if len(argv) > 4 and os.path.basename(argv[0]) == "timeout" and argv[1] == "-s":
        return argv[4:]
    return argv


def run_case(spec, ctx):
    if spec["mode"] == "history":
        return run_history(spec, ctx)
    return run_content(spec, ctx)
