"""C16 - client options resolve by precedence; offline means no network."""
import contextlib
import io
import os
import shutil
import sys
import tempfile

ID = "C16"
LEVEL = "exploration"
RULE = ("every case assigns each option of DEFAULT_OPTS independently to a random subset of {configuration file, INSIGHTS_* "
        "environment, command line} with type-correct values (boolean spellings true/True/FALSE/yes/no/1/0/on/off where the "
        "layer documents them, numeric options, paths in a scratch area for conf/output_dir/output_file/logging_file), plus "
        "unknown and method-shadowing names (load_all, _cli_opts, no_such_opt) in file and environment; "
        "InsightsConfig(_print_errors=False).load_all() runs in-process with sys.argv / os.environ / the file set by the "
        "harness; a model of the statement (first layer that gives the option in the order command line, environment, "
        "file, default, after the layer's documented coercion) predicts every option no implication touches; for the "
        "implied ones the statement's invariants are checked; a rejection must be explained by a conflict in the model "
        "and a conflict must be rejected; the file location itself is given in several layers, network switches also as truthy "
        "non-booleans; one evaluation = one load; non-trivial = >= 3 options given in >= 2 layers; "
        "distinct by case hash")
ASSUMPTIONS = [
    "values are type-correct for their option; an unparsable boolean/number in the file (which makes the client ignore the whole file) is not generated",
    "options whose default is None but which act as switches (diagnosis, use_atomic, use_docker) are given through the command line or environment only",
    "gpg is compared only when no layer sets no_gpg (documented alias)",
    "the environment's boolean coercion is documented for true/false only",
]
REACH = [
    "insights/client/config.py::InsightsConfig.load_all",
    "insights/client/config.py::InsightsConfig._load_env",
    "insights/client/config.py::InsightsConfig._load_command_line",
    "insights/client/config.py::InsightsConfig._load_config_file",
    "insights/client/config.py::InsightsConfig._imply_options",
    "insights/client/config.py::InsightsConfig._validate_options",
    "insights/client/config.py::InsightsConfig._update_dict",
]
PLAN = {
    "quick": {"shards": 8, "cases": 3600, "timeout_s": 900, "min_evaluations": 24000,
              "min_counters": {"loads_accepted": 6000, "loads_rejected": 4000, "option_values_compared": 360000, "offline_loads_accepted": 240}},
    "thorough": {"shards": 16, "cases": 25000, "timeout_s": 3300, "min_evaluations": 300000,
                 "min_counters": {"loads_accepted": 120000}},
}
SKIP = {"conf", "branch_info"}
NONE_SWITCHES = {"diagnosis", "use_atomic", "use_docker"}
IMPLIED = {"no_upload", "auto_update", "to_json", "register", "keep_archive", "diagnosis", "net_debug", "legacy_upload", "logging_file",
           "compressor", "manifest", "content_type", "retries", "output_dir", "output_file", "analyze_container", "gpg"}
NUM = {"retries": int, "cmd_timeout": int, "http_timeout": float}
FILE_BOOL = ["True", "False", "true", "false", "TRUE", "FALSE", "yes", "no", "Yes", "NO", "1", "0", "on", "off", "On", "OFF"]
TRUTH = {"true": True, "yes": True, "1": True, "on": True, "false": False, "no": False, "0": False, "off": False}
ENV_BOOL = ["True", "False", "true", "false", "TRUE", "FALSE", "tRuE"]


def opts():
    from insights.client.config import DEFAULT_OPTS
    return DEFAULT_OPTS


def gen_case(rng, tier, idx):
    O = opts()
    file_kv, env_kv, cli, cli_kv = {}, {}, [], {}
    density = rng.choice([0.02, 0.04, 0.08, 0.15])
    hot = rng.sample(["offline", "register", "no_upload", "auto_update", "keep_archive", "status", "test_connection", "checkin", "unregister",
                      "check_results", "diagnosis", "to_json", "obfuscate", "obfuscate_hostname", "enable_schedule", "disable_schedule",
                      "output_dir", "output_file", "payload", "content_type", "quiet"], rng.randint(0, 5))
    for k in sorted(O):
        if k in SKIP:
            continue
        d = O[k]["default"]
        p = 0.4 if k in hot else density
        if k in ("use_atomic", "use_docker", "analyze_container", "app", "module", "payload"):
            p = p * 0.25
        has_cli = "opt" in O[k]
        action = O[k].get("action")
        isbool = type(d) is bool
        if isbool or k in NONE_SWITCHES:
            if isbool and rng.random() < p:
                file_kv[k] = rng.choice(FILE_BOOL)
            if rng.random() < p:
                env_kv[k] = rng.choice(ENV_BOOL)
            if has_cli and action in ("store_true", "store_false") and rng.random() < p * 0.6:
                cli.append(O[k]["opt"][0])
                cli_kv[O[k].get("dest", k)] = action == "store_true"
        elif k in NUM:
            if rng.random() < p:
                file_kv[k] = str(rng.randint(1, 9)) if NUM[k] is int else rng.choice(["1.5", "30", "0.25"])
            if rng.random() < p:
                env_kv[k] = str(rng.randint(10, 19)) if NUM[k] is int else rng.choice(["2.5", "45"])
            if k == "retries" and rng.random() < max(p, 0.15):
                v = rng.choice([25, 1, 1, 3])          # 1 is the built-in default: still "given on the command line"
                cli += ["--retry", str(v)]
                cli_kv["retries"] = v
        elif k in ("output_dir", "output_file"):
            form = rng.choice(["fresh", "fresh", "fresh", "exists", "noparent", "empty"])
            val = {"fresh": "@S@/out_%s_%%d" % k, "exists": "@S@/existing_%s%s" % (k, ".tar.gz" if k == "output_file" else ""), "noparent": "@S@/nope/x_%s" % k, "empty": ""}[form]
            layer = rng.choice(["file", "env", "cli"])
            if rng.random() < p:
                if layer == "file" and val:
                    file_kv[k] = val
                elif layer == "env":
                    env_kv[k] = val
                elif val:
                    cli += [O[k]["opt"][0], val]
                    cli_kv[k] = val
        elif k in ("analyze_file", "analyze_image_id", "analyze_mountpoint"):
            if rng.random() < 0.02:
                cli += [O[k]["opt"][0]]
                cli_kv[k] = True
        else:
            # string-valued options
            def sval(layer):
                if k == "app":
                    return rng.choice(["malware-detection", "compliance", "no-such-app", "default"])
                if k == "module":
                    return rng.choice(["insights.client.apps.x", "os.path"])
                if k == "compressor":
                    return rng.choice(["gz", "bz2", "xz", "none", "zip"])
                if k == "logging_file":
                    return "@S@/log_%s.log" % layer
                if k == "loglevel":
                    return rng.choice(["DEBUG", "INFO", "ERROR"])
                # free text: also with the characters a configuration-file reader may take for interpolation syntax
                return "%s_%s%s" % (layer, k, rng.choice(["", "", "", "_p%40ss", "_100%", "_%(here)s", "_%%x", "_$HOME", "_${x}"]))
            if rng.random() < p:
                file_kv[k] = sval("f")
            if rng.random() < p:
                env_kv[k] = sval("e")
            if has_cli and rng.random() < p:
                v = sval("c")
                cli += [O[k]["opt"][0], v]
                cli_kv[O[k].get("dest", k)] = v
    if rng.random() < 0.15:
        # the location of the configuration file itself is an option of every layer; the harness always gives it on the command line
        if rng.random() < 0.7:
            env_kv["conf"] = "@S@/env_named.conf"
        if rng.random() < 0.5:
            file_kv["conf"] = "@S@/file_named.conf"
    if rng.random() < 0.2:
        # a network request switched on by a value that is truthy but not the boolean True: the environment turns only
        # 'true'/'false' into booleans, the file leaves 'diagnosis' (default None) a string
        for k in rng.sample(["status", "test_connection", "checkin", "unregister", "check_results", "diagnosis", "to_json"], rng.randint(1, 2)):
            env_kv[k] = rng.choice(["yes", "1", "on", "y"])
        if rng.random() < 0.3:
            file_kv["diagnosis"] = "True"
        if rng.random() < 0.6 and "offline" not in env_kv and "--offline" not in cli:
            file_kv["offline"] = "True"
    junk = rng.random() < 0.6
    if junk:
        file_kv["no_such_opt"] = "x"
        file_kv["load_all"] = "shadow"
        env_kv["bogus"] = "y"
        env_kv["load_all"] = "z"
        env_kv["_cli_opts"] = "w"
        env_kv["_update_dict"] = "q"
    return {"file": file_kv, "env": env_kv, "cli": cli, "cli_kv": cli_kv, "env_case": rng.choice(["upper", "upper", "lower", "mixed"]),
            "section": rng.choice(["insights-client", "insights-client", "redhat-access-insights"]) if not any(k in NUM or True for k in file_kv) else "insights-client"}


def nontrivial(spec):
    given = set(spec["file"]) | set(spec["env"]) | set(spec["cli_kv"])
    layers = sum(1 for x in (spec["file"], spec["env"], spec["cli_kv"]) if x)
    return len(given) >= 3 and layers >= 2


def run_case(spec, ctx):
    from insights.client.config import DEFAULT_OPTS, InsightsConfig
    from insights.specs.manifests import content_types, manifests
    O = DEFAULT_OPTS
    base = tempfile.mkdtemp(prefix="vpc16_")
    saved_env = dict(os.environ)
    saved_argv = list(sys.argv)
    try:
        os.makedirs(os.path.join(base, "existing_output_dir"))
        open(os.path.join(base, "existing_output_dir", "f"), "w").close()
        open(os.path.join(base, "existing_output_file.tar.gz"), "w").close()
        n = [0]

        def sub(v):
            if isinstance(v, str):
                v = v.replace("@S@", base)
                if "%d" in v:
                    n[0] += 1
                    v = v % n[0]
            return v
        file_kv = dict((k, sub(v)) for k, v in spec["file"].items())
        env_kv = dict((k, sub(v)) for k, v in spec["env"].items())
        cli = [sub(a) for a in spec["cli"]]
        cli_kv = dict((k, sub(v)) for k, v in spec["cli_kv"].items())
        # a fresh path is only fresh once: file/env/cli copies of the same template got different numbers, align the model with argv
        it = iter(cli)
        for a in it:
            for k in ("output_dir", "output_file"):
                if a == O[k]["opt"][0]:
                    cli_kv[k] = next(it)
        conf = os.path.join(base, "insights-client.conf")
        with open(conf, "w") as f:
            f.write("[%s]\n" % spec.get("section", "insights-client"))
            for k, v in file_kv.items():
                f.write("%s=%s\n" % (k, v))
        for k in list(os.environ):
            if k.upper().startswith("INSIGHTS_"):
                del os.environ[k]
        os.environ.pop("HTTP_PROXY", None)
        for k, v in env_kv.items():
            name = "INSIGHTS_" + k.upper()
            if spec["env_case"] == "lower" and not k.startswith("_"):
                name = "insights_" + k
            elif spec["env_case"] == "mixed":
                name = "Insights_" + k.upper()
            os.environ[name] = v
        sys.argv = ["insights-client", "--conf", conf] + cli
        outcome = None
        c = None
        try:
            with contextlib.redirect_stderr(io.StringIO()), contextlib.redirect_stdout(io.StringIO()):
                c = InsightsConfig(_print_errors=False).load_all()
            outcome = "ok"
        except ValueError as ex:
            outcome = "rejected"
            msg = str(ex)
        except SystemExit as ex:
            outcome = "argparse-exit"
            msg = str(ex)
        except Exception as ex:
            ctx.violation("option-loading-raised-unexpected-exception", {"exc": repr(ex)[:300], "argv": sys.argv[3:], "env": env_kv, "file": file_kv})
            return True
        # ---- the model: layered value per option ---------------------------
        L = {}
        src = {}
        cli_kv = dict(cli_kv, conf=conf)
        for k in O:
            d = O[k]["default"]
            if k in cli_kv:
                L[k], src[k] = cli_kv[k], "cli"
            elif k in env_kv:
                v = env_kv[k]
                e = True if v.lower() == "true" else (False if v.lower() == "false" else v)
                if k in NUM:
                    e = NUM[k](v)
                L[k], src[k] = e, "env"
            elif k in file_kv:
                v = file_kv[k]
                if type(d) is bool:
                    e = TRUTH[v.lower()]
                elif k in NUM:
                    e = NUM[k](v)
                else:
                    e = v
                L[k], src[k] = e, "file"
            else:
                L[k], src[k] = d, "default"
        app = L["app"]
        ct = L["content_type"]
        if app:
            ct = content_types.get(app)
        if L["compliance"] or L["compliance_policies"] or L["compliance_assign"] or L["compliance_unassign"]:
            ct = content_types.get("compliance")
        analyze = any(L[k] for k in ("analyze_container", "analyze_file", "analyze_mountpoint", "analyze_image_id"))
        # conflicts the statement lists: they MUST be rejected
        conflicts = []
        # other documented reasons for a rejection: they explain a rejection, but are not demanded here
        other = []
        if analyze or L["use_atomic"] or L["use_docker"]:
            other.append("unsupported-switch")
        if L["obfuscate_hostname"] and not L["obfuscate"]:
            conflicts.append("obfuscate_hostname-without-obfuscate")
        if L["enable_schedule"] and L["disable_schedule"]:
            other.append("schedule")
        if L["payload"] and not ct:
            other.append("payload-without-content-type")
        if L["offline"]:
            for k in ("to_json", "status", "test_connection", "checkin", "unregister", "check_results", "diagnosis"):
                if L[k]:
                    conflicts.append("offline+" + k)
        if L["output_dir"] and L["output_file"]:
            conflicts.append("output_dir+output_file")
        for k in ("output_dir", "output_file"):
            v = L[k]
            if v == "":
                other.append("empty-" + k)
            elif v:
                if "existing_" in v or "/nope/" in v:
                    other.append("bad-path-" + k)
        if L["module"] and not L["module"].startswith("insights.client.apps."):
            other.append("module-namespace")
        if app and not manifests.get(app):
            other.append("unknown-app")
        w = {"argv": sys.argv[3:], "env": env_kv, "file": file_kv}
        if outcome == "argparse-exit":
            ctx.count("loads_rejected_by_argparse")
            ctx.violation("command-line-rejected-by-argparse", dict(w, message=msg[:200]))
            return True
        if outcome == "rejected":
            ctx.count("loads_rejected")
            ctx.seen("rejection_messages", msg[:60])
            if not conflicts and not other:
                ctx.violation("load-rejected-without-a-conflict", dict(w, message=msg[:300]))
            return nontrivial(spec)
        ctx.count("loads_accepted")
        if conflicts:
            ctx.violation("conflicting-options-accepted-silently", dict(w, conflicts=conflicts,
                                                                       values=dict((k, repr(getattr(c, k, None))) for k in ("offline", "no_upload", "register", "to_json", "obfuscate", "obfuscate_hostname"))))
            return True
        no_gpg_given = any("no_gpg" in layer for layer in (file_kv, env_kv, cli_kv)) or any(a == "--no-gpg" for a in cli)
        # options an implication may touch are compared too whenever none of their implications applies
        from insights.client.constants import InsightsConstants as constants
        if L["compressor"] in constants.valid_compressors and not L["output_file"] and c.compressor != L["compressor"]:
            ctx.violation("option-value-not-from-highest-priority-source", dict(w, option="compressor", got=repr(c.compressor), expected=repr(L["compressor"]), source=src["compressor"]))
        if not (app == "malware-detection") and c.retries != L["retries"]:
            ctx.violation("option-value-not-from-highest-priority-source", dict(w, option="retries", got=repr(c.retries), expected=repr(L["retries"]), source=src["retries"]))
        if not L["payload"] and c.logging_file != L["logging_file"]:
            ctx.violation("option-value-not-from-highest-priority-source", dict(w, option="logging_file", got=repr(c.logging_file), expected=repr(L["logging_file"]), source=src["logging_file"]))
        if "conf" in env_kv or "conf" in file_kv:
            ctx.count("loads_with_the_file_location_given_in_several_layers")
        if c.conf != conf:
            ctx.violation("option-value-not-from-highest-priority-source", dict(w, option="conf", got=repr(c.conf), expected=repr(conf), source="cli"))
        ctx.count("option_values_compared", 4)
        for k in O:
            if k in SKIP:
                continue
            got = getattr(c, k, "<missing>")
            if k in IMPLIED and not (k == "gpg" and not no_gpg_given):
                continue
            ctx.count("option_values_compared")
            if got != L[k] or type(got) is not type(L[k]):
                ctx.violation("option-value-not-from-highest-priority-source", dict(w, option=k, got=repr(got), expected=repr(L[k]), source=src[k]))
        extra = [k for k in vars(c) if k not in O and k not in ("_print_errors", "_init_attrs", "_cli_opts")]
        if extra:
            ctx.violation("unknown-name-became-a-setting", dict(w, names=extra))
        if not callable(getattr(c, "load_all", None)) or not callable(getattr(c, "_update_dict", None)) or isinstance(c._cli_opts, str):
            ctx.violation("method-or-private-attribute-shadowed-by-option", dict(w))
        # the statement's invariants
        if c.offline:
            ctx.count("offline_loads_accepted")
            if not c.no_upload or c.register or c.auto_update:
                ctx.violation("offline-without-its-implications", dict(w, no_upload=c.no_upload, register=c.register, auto_update=c.auto_update))
            for k in ("status", "test_connection", "checkin", "unregister", "check_results", "diagnosis", "to_json"):
                if getattr(c, k):
                    ctx.violation("offline-combined-with-network-request", dict(w, option=k))
        if c.output_dir or c.output_file:
            ctx.count("output_loads_accepted")
            if not c.no_upload or c.keep_archive:
                ctx.violation("explicit-output-without-its-implications", dict(w, no_upload=c.no_upload, keep_archive=c.keep_archive))
        if c.obfuscate_hostname and not c.obfuscate:
            ctx.violation("hostname-obfuscation-without-obfuscation", dict(w))
        # implied options may differ from the layered value only in the documented direction
        if c.no_upload != L["no_upload"] and not (c.no_upload and (L["offline"] or L["output_dir"] or L["output_file"])):
            ctx.violation("implied-option-changed-without-cause", dict(w, option="no_upload", got=c.no_upload, layered=L["no_upload"]))
        if c.register != L["register"] and not (not c.register and L["offline"]):
            ctx.violation("implied-option-changed-without-cause", dict(w, option="register", got=c.register, layered=L["register"]))
        if c.auto_update != L["auto_update"] and not (not c.auto_update and L["offline"]):
            ctx.violation("implied-option-changed-without-cause", dict(w, option="auto_update", got=c.auto_update, layered=L["auto_update"]))
        return nontrivial(spec)
    finally:
        os.environ.clear()
        os.environ.update(saved_env)
        sys.argv = saved_argv
        shutil.rmtree(base, ignore_errors=True)
