"""C17 - client identity and registration markers stay coherent over any history."""
import os
import re
import shutil
import tempfile
import uuid

ID = "C17"
LEVEL = "exploration"
RULE = ("histories of 1-25 operations from {read id, regenerate, register, unregister, delete registered marker, delete "
        "unregistered marker, plant symlink at a marker path, create configuration directory} on a scratch 'etc' tree with "
        "the two configuration directories (constants repointed), starting from: directory absent / empty / with an "
        "identifier file in canonical, upper-case, un-hyphenated, braced, newline-terminated, empty, garbage form / with "
        "either or both markers / with symlinks (to a victim file, dangling, to a directory) at marker paths; the "
        "subscription-manager identity is stubbed (none, or a fixed UUID in a share of histories); after every operation "
        "a snapshot (type, inode, mtime, bytes) and the audit log of open-for-write / remove events are checked; a share of the "
        "registrations / unregistrations runs with the n-th os.remove failing (EACCES) and must not be what puts both markers "
        "into one directory; one "
        "evaluation = one history; non-trivial = >= 3 operations including a read and a marker operation; distinct by hash")
ASSUMPTIONS = [
    "a history is one process; 'across client runs' is simulated by re-reading from disk (the functions keep no in-memory state)",
    "an identifier file holding something that is not a UUID makes the client exit (documented); that is counted, not judged",
    "marker paths are files or symlinks, never directories",
]
REACH = [
    "insights/client/utilities.py::generate_machine_id",
    "insights/client/utilities.py::write_registered_file",
    "insights/client/utilities.py::write_unregistered_file",
    "insights/client/utilities.py::delete_registered_file",
    "insights/client/utilities.py::delete_unregistered_file",
    "insights/client/utilities.py::write_to_disk",
]
PLAN = {
    "quick": {"shards": 8, "cases": 3600, "timeout_s": 900, "min_evaluations": 24000,
              "min_counters": {"operations": 240000, "identifier_reads": 60000, "marker_operations": 40000, "symlinks_replaced": 4500,
                               "reads_of_existing_file_checked": 24000}},
    "thorough": {"shards": 16, "cases": 12000, "timeout_s": 3300, "min_evaluations": 150000,
                 "min_counters": {"operations": 1500000}},
}
KNOWN_F10 = "identifier-not-persisted-because-directory-absent"
CANON = re.compile(r"^[0-9a-f]{8}-[0-9a-f]{4}-[0-9a-f]{4}-[0-9a-f]{4}-[0-9a-f]{12}$")
OPS = ["read", "read", "read", "regen", "register", "unregister", "delreg", "delunreg", "plant", "mkdir", "faulty", "rhsm"]
ID_FORMS = {
    "canonical": "dc194312-de5f-44a1-a7d0-c2d1b3f4e5a6",
    "upper": "DC194312-DE5F-44A1-A7D0-C2D1B3F4E5A6",
    "legacy": "dc194312de5f44a1a7d0c2d1b3f4e5a6",
    "braced": "{dc194312-de5f-44a1-a7d0-c2d1b3f4e5a6}",
    "newline": "dc194312-de5f-44a1-a7d0-c2d1b3f4e5a6\n",
    "spaces": "  dc194312-de5f-44a1-a7d0-c2d1b3f4e5a6  \n",
    "urn": "urn:uuid:dc194312-de5f-44a1-a7d0-c2d1b3f4e5a6",
    "v1": "a8098c1a-f86e-11da-bd1a-00112444be1e",
    "empty": "",
    "garbage": "not-a-uuid",
}


def directed(tier):
    return [{"init": {"dir1": False, "dir2": False, "id": None, "markers": {}}, "rhsm": None,
             "ops": [["read"], ["read"], ["mkdir", [True, False]], ["read"], ["read"]]}]


def gen_case(rng, tier, idx):
    dir1 = rng.random() < 0.8
    dir2 = rng.random() < 0.6
    idform = rng.choice([None, None] + sorted(ID_FORMS)) if dir1 else None
    markers = {}
    for d in (1, 2):
        for m in ("registered", "unregistered"):
            r = rng.random()
            if r < 0.25:
                markers["%d.%s" % (d, m)] = "file"
            elif r < 0.45:
                markers["%d.%s" % (d, m)] = rng.choice(["link_victim", "link_dangling", "link_dir", "link_victim_rel"])
    ops = []
    for _ in range(rng.randint(1, 25)):
        op = rng.choice(OPS)
        if op == "plant":
            ops.append([op, "%d.%s" % (rng.choice([1, 2]), rng.choice(["registered", "unregistered"])),
                        rng.choice(["link_victim", "link_dangling", "link_dir", "link_victim_rel"])])
        elif op == "mkdir":
            ops.append([op, [rng.random() < 0.6, rng.random() < 0.6]])
        elif op == "rhsm":
            # the subscription-manager identity appears, disappears or changes between two client runs
            ops.append([op, rng.choice([None, "11111111-2222-4333-8444-555555555555", "99999999-8888-4777-8666-555555555555"])])
        elif op == "faulty":
            # a registration / unregistration during which the n-th removal of a file fails (permission denied)
            ops.append([rng.choice(["register", "unregister"]), {"fail_remove": rng.randint(1, 4)}])
        else:
            ops.append([op])
    return {"init": {"dir1": dir1, "dir2": dir2, "id": idform, "markers": markers},
            "rhsm": rng.choice([None, None, None, "11111111-2222-4333-8444-555555555555", "AAAAAAAABBBB4CCC8DDDEEEEEEEEEEEE"]), "ops": ops}


def nontrivial(spec):
    names = [o[0] for o in spec["ops"]]
    return len(names) >= 3 and "read" in names and any(n in names for n in ("register", "unregister"))


def run_case(spec, ctx):
    from insights.client import utilities as u
    from insights.client.constants import InsightsConstants as constants
    from vpmon import audit
    base = tempfile.mkdtemp(prefix="vpc17_")
    saved = (constants.registered_files, constants.unregistered_files, u._get_rhsm_identity)
    try:
        d = {1: os.path.join(base, "etc", "insights-client"), 2: os.path.join(base, "etc", "redhat-access-insights")}
        os.makedirs(os.path.join(base, "etc"))
        constants.registered_files = [os.path.join(d[1], ".registered"), os.path.join(d[2], ".registered")]
        constants.unregistered_files = [os.path.join(d[1], ".unregistered"), os.path.join(d[2], ".unregistered")]
        rhsm = spec["rhsm"]
        u._get_rhsm_identity = lambda: rhsm
        idf = os.path.join(d[1], "machine-id")
        victim = os.path.join(base, "victim")
        with open(victim, "w") as f:
            f.write("VICTIM")
        vdir = os.path.join(base, "vdir")
        os.makedirs(vdir)

        def mpath(key):
            n, m = key.split(".")
            return os.path.join(d[int(n)], "." + m)

        def plant(key, how):
            p = mpath(key)
            if not os.path.isdir(os.path.dirname(p)) or os.path.lexists(p):
                return False
            if how == "file":
                with open(p, "w") as f:
                    f.write("x")
            else:
                target = {"link_victim": victim, "link_dangling": os.path.join(base, "dangling"), "link_dir": vdir,
                          "link_victim_rel": os.path.relpath(victim, os.path.dirname(p))}[how]
                os.symlink(target, p)
            return True
        init = spec["init"]
        if init["dir1"]:
            os.makedirs(d[1])
        if init["dir2"]:
            os.makedirs(d[2])
        if init["id"] is not None and init["dir1"]:
            with open(idf, "w") as f:
                f.write(ID_FORMS[init["id"]])
        for key, how in sorted(init["markers"].items()):
            plant(key, how)
        ctx.seen("initial_identifier_forms", str(init["id"]))
        last_id = None
        last_persisted = True
        last_dir_absent = False
        for step, op in enumerate(spec["ops"]):
            name = op[0]
            ctx.count("operations")
            w = {"step": step, "operation": op, "initial": init, "history": spec["ops"][:step + 1][-6:]}
            if name in ("read", "regen"):
                pre = None
                if os.path.isfile(idf):
                    st = os.stat(idf)
                    with open(idf, "rb") as f:
                        pre = (st.st_ino, st.st_mtime_ns, f.read())
                got = None
                dir_absent_before = not os.path.isdir(d[1])
                with audit.record() as events:
                    try:
                        got = u.generate_machine_id(new=(name == "regen"), destination_file=idf)
                    except SystemExit:
                        ctx.count("invalid_identifier_exits")
                        if last_id is not None:
                            # an identifier was handed out before and nobody but the client touched the file since
                            ctx.violation("identifier-unreadable-after-it-was-handed-out", dict(w, previous=last_id, file=repr(open(idf, "rb").read()[:120]) if os.path.isfile(idf) else None))
                ctx.count("identifier_reads")
                if got is None:
                    continue
                if os.path.isfile(idf):
                    with open(idf, "rb") as f:
                        stored = f.read()
                    if stored.strip():
                        # the identifier is persisted: the very next read (one more client run) must return it again
                        ctx.count("immediate_rereads_of_a_persisted_identifier")
                        try:
                            again = u.generate_machine_id(new=False, destination_file=idf)
                        except SystemExit:
                            again = None
                        if again is None:
                            ctx.violation("identifier-unreadable-after-it-was-handed-out", dict(w, previous=got, file=repr(stored[:120]), file_before=repr(pre[2][:120]) if pre else None))
                        elif again != got:
                            ctx.violation("identifier-changed-without-regeneration", dict(w, previous=got, got=again, file=repr(stored[:120]), immediate_reread=True))
                if not isinstance(got, str) or not CANON.match(got):
                    ctx.violation("identifier-not-canonical", dict(w, got=repr(got), file=repr(pre[2] if pre else None)))
                if name == "read":
                    if last_id is not None and got != last_id:
                        ctx.violation(KNOWN_F10 if (not last_persisted and last_dir_absent) else "identifier-changed-without-regeneration",
                                      dict(w, previous=last_id, got=got, previous_persisted=last_persisted, directory_absent_at_previous_read=last_dir_absent))
                    if pre and pre[2].strip():
                        ctx.count("reads_of_existing_file_checked")
                        st = os.stat(idf) if os.path.isfile(idf) else None
                        now = None
                        if st:
                            with open(idf, "rb") as f:
                                now = (st.st_ino, st.st_mtime_ns, f.read())
                        if now != pre:
                            ctx.violation("identifier-file-rewritten-by-a-read", dict(w, before=repr(pre[2]), after=repr(now[2] if now else None)))
                        for ev in events:
                            if (ev[0] == "open" and ev[2] == "w" and ev[1] == idf) or (ev[0] in ("os.remove", "os.rename") and idf in ev[1:]):
                                ctx.violation("identifier-file-opened-for-writing-by-a-read", dict(w, event=list(ev)))
                last_id = got
                last_persisted = os.path.isfile(idf) and bool(open(idf).read().strip())
                last_dir_absent = dir_absent_before
            elif name in ("register", "unregister") and len(op) > 1:
                # fault injection: the operation may fail, but what it leaves behind must still be coherent
                real_remove = os.remove
                calls = [0]

                def failing_remove(path, *a, **k):
                    if str(path).startswith(base) and os.path.lexists(path):
                        calls[0] += 1
                        if calls[0] == op[1]["fail_remove"]:
                            raise PermissionError(13, "Permission denied (injected)", str(path))
                    return real_remove(path, *a, **k)
                def together(n):
                    return os.path.isdir(d[n]) and os.path.lexists(os.path.join(d[n], ".registered")) and os.path.lexists(os.path.join(d[n], ".unregistered"))
                together_before = dict((n, together(n)) for n in (1, 2))
                os.remove = failing_remove
                failed = False
                try:
                    u.write_registered_file() if name == "register" else u.write_unregistered_file()
                except OSError:
                    failed = True
                finally:
                    os.remove = real_remove
                ctx.count("marker_operations_with_an_injected_fault")
                if failed:
                    ctx.count("marker_operations_that_failed_on_the_injected_fault")
                for n in (1, 2):
                    # a failed operation cannot be asked to repair a directory that already held both markers (an initial
                    # state of the quantifier), but it must not be what puts them together
                    if together(n) and not together_before[n]:
                        ctx.violation("both-markers-exist-together", dict(w, directory=n, listing=sorted(os.listdir(d[n])), operation_failed=failed))
            elif name in ("register", "unregister"):
                links_before = [p for p in (constants.registered_files if name == "register" else constants.unregistered_files) if os.path.islink(p)]
                try:
                    if name == "register":
                        u.write_registered_file()
                    else:
                        u.write_unregistered_file()
                except Exception as ex:
                    ctx.violation("marker-operation-raised", dict(w, exc=repr(ex)[:200]))
                    continue
                ctx.count("marker_operations")
                mine, other = (".registered", ".unregistered") if name == "register" else (".unregistered", ".registered")
                for n in (1, 2):
                    if not os.path.isdir(d[n]):
                        continue
                    a, b = os.path.join(d[n], mine), os.path.join(d[n], other)
                    if os.path.lexists(a) and os.path.lexists(b):
                        ctx.violation("both-markers-exist-together", dict(w, directory=n, listing=sorted(os.listdir(d[n]))))
                    if not os.path.lexists(a):
                        ctx.violation("marker-missing-after-operation", dict(w, directory=n, marker=mine))
                    elif os.path.islink(a):
                        ctx.violation("planted-symlink-followed-not-replaced", dict(w, directory=n, marker=mine, target=os.readlink(a)))
                    elif not os.path.isfile(a):
                        ctx.violation("marker-is-not-a-regular-file", dict(w, directory=n, marker=mine))
                    if os.path.lexists(b):
                        ctx.violation("opposite-marker-left-behind", dict(w, directory=n, marker=other))
                ctx.count("symlinks_replaced", len(links_before))
            elif name in ("delreg", "delunreg"):
                try:
                    u.delete_registered_file() if name == "delreg" else u.delete_unregistered_file()
                except Exception as ex:
                    ctx.violation("marker-deletion-raised", dict(w, exc=repr(ex)[:200]))
                    continue
                ctx.count("marker_deletions")
                for p in (constants.registered_files if name == "delreg" else constants.unregistered_files):
                    if os.path.lexists(p):
                        ctx.violation("marker-survived-its-deletion", dict(w, path=os.path.basename(p)))
            elif name == "rhsm":
                rhsm = op[1]
                u._get_rhsm_identity = lambda _v=op[1]: _v
                ctx.count("subscription_identity_changes")
            elif name == "plant":
                if plant(op[1], op[2]):
                    ctx.count("symlinks_planted")
            elif name == "mkdir":
                for n, flag in zip((1, 2), op[1]):
                    if flag and not os.path.isdir(d[n]):
                        os.makedirs(d[n])
            with open(victim) as f:
                if f.read() != "VICTIM":
                    ctx.violation("symlink-victim-overwritten", dict(w))
                    with open(victim, "w") as f2:
                        f2.write("VICTIM")
            if os.listdir(vdir):
                ctx.violation("file-created-through-directory-symlink", dict(w, listing=os.listdir(vdir)))
            if os.path.lexists(os.path.join(base, "dangling")):
                ctx.violation("file-created-through-dangling-symlink", dict(w))
                os.remove(os.path.join(base, "dangling"))
        return nontrivial(spec)
    finally:
        constants.registered_files, constants.unregistered_files, u._get_rhsm_identity = saved
        shutil.rmtree(base, ignore_errors=True)
