"""C06 - collection stays in its root, honours the deny list, writes only beneath the output directory."""
import itertools
import os
import shutil
import sys
import tempfile
import types

ID = "C06"
LEVEL = "exploration"
RULE = ("three monitors on scratch directory trees: (contain) random layouts - a root, siblings whose names extend the "
        "root's name, nested dirs, files, relative/absolute/chained/dangling symlinks to files and directories inside and "
        "outside; every outside file holds a unique canary; each probe path (plain, 0-6 '..' segments, through links, "
        "doubled slashes, climbing above the root and coming back) goes through simple_file, glob_file, first_file, "
        "foreach_collect and the Text/Raw providers directly under HostContext and the archive contexts; (deny) real host "
        "collection of a generated SpecSet with all nine declarative kinds under an audit hook with generated deny lists "
        "(exact hits, near misses, symbolic names, component names); (write) Hydration persistence with save_as variants "
        "and '..' paths, collected paths that are symlinks (raw and text kinds), commands with shell quoting (the executed argv is "
        "mapped back to the command line as the spec writes it before deny entries are matched), tree snapshot + audit events + "
        "byte comparison of every source file before/after; (collect) complete collections through insights.collect.collect() in "
        "child interpreters with a throw-away spec package, a manifest enabling it by prefix and a user deny list; deny probes "
        "with the root of a real host and 1-3 leading slashes; one evaluation = one probe / one collection run; non-trivial = the "
        "probe involves a symlink, a '..' segment or a prefix-sharing sibling (contain), the deny list has a hit and a "
        "near miss (deny), a save_as or '..' path (write); distinct by hash of the case")
ASSUMPTIONS = [
    "deny-list matching is textual on the path / command line as the datasource names it (exact, or followed by a space), as blacklist.py documents",
    "a path that aliases a deny-listed file through a symlink is outside the statement",
    "container engines are not installed: the engine path is made resolvable by stubbing `which` for that path only; the audit event of the attempted exec is what is judged",
    "the file system is not modified concurrently by another process",
]
REACH = [
    "insights/core/spec_factory.py::FileProvider.validate",
    "insights/core/spec_factory.py::CommandOutputProvider.validate",
    "insights/core/spec_factory.py::simple_file.__call__",
    "insights/core/spec_factory.py::glob_file.__call__",
    "insights/core/spec_factory.py::first_file.__call__",
    "insights/core/spec_factory.py::foreach_collect.__call__",
    "insights/core/spec_factory.py::foreach_execute.__call__",
    "insights/core/spec_factory.py::command_with_args.__call__",
    "insights/core/spec_factory.py::container_execute.__call__",
    "insights/core/spec_factory.py::container_collect.__call__",
    "insights/core/spec_factory.py::serialize_text_file_provider",
    "insights/core/spec_factory.py::serialize_command_output",
    "insights/core/blacklist.py::allow_file",
    "insights/core/blacklist.py::allow_command",
    "insights/collect.py::apply_blacklist",
    "insights/core/serde.py::Hydration.dehydrate",
]
PLAN = {
    "quick": {"shards": 8, "cases": 300, "timeout_s": 900, "min_evaluations": 9000,
              "min_counters": {"providers_returned": 1600, "contents_read": 1600, "deny_runs": 120, "audit_events_seen": 6000,
                               "files_persisted": 400, "complete_collections_with_allowed_content_persisted": 40}},
    "thorough": {"shards": 16, "cases": 2400, "timeout_s": 3300, "min_evaluations": 60000,
                 "min_counters": {"providers_returned": 12000}},
}
_UID = itertools.count()
CTXS = ["HostContext", "HostArchiveContext", "SosArchiveContext", "SerializedArchiveContext"]


def directed(tier):
    return [
        # F3: prefix-sharing sibling reached through a link and through '..'
        {"mode": "contain", "root_name": "root", "siblings": ["root_evil"], "inside": ["etc/a.txt"],
         "outside": ["root_evil/secret"], "links": [["etc/l", "abs", "root_evil/secret"]],
         "probes": [{"factory": "simple_file", "path": "etc/l", "ctx": "HostContext", "kind": "text"},
                    {"factory": "simple_file", "path": "../root_evil/secret", "ctx": "HostArchiveContext", "kind": "text"},
                    {"factory": "provider", "path": "etc/../../root_evil/secret", "ctx": "HostContext", "kind": "raw"}]},
        # F3b: path climbing above the root and coming back: persisted outside the output directory
        {"mode": "write", "root_name": "root", "files": {"etc/a.txt": 2, "etc/b.txt": 1},
         "specs": [{"kind": "simple_file", "path": "@CLIMB3@etc/a.txt", "save_as": None},
                   {"kind": "simple_file", "path": "/etc/b.txt", "save_as": None}], "out_depth": 1},
    ]


# --------------------------------------------------------------------------
# generation
# --------------------------------------------------------------------------
COLLECT_CHILD = r"""
import json, logging, os, sys
job = json.load(open(sys.argv[1]))
top = job["top"]
sys.path.insert(0, os.path.join(top, "mod"))
events = []
def hook(name, args):
    try:
        if name == "open" and isinstance(args[0], str) and args[0].startswith(top):
            events.append(["open", args[0], str(args[1])])
        elif name == "subprocess.Popen":
            events.append(["popen", [str(a) for a in (args[1] if isinstance(args[1], (list, tuple)) else [args[1]])]])
    except Exception:
        pass
sys.addaudithook(hook)
logging.disable(logging.CRITICAL)
from insights import collect
out_root = os.path.join(top, "out")
os.makedirs(out_root)
res = {"events": events}
try:
    output_path, _ = collect.collect(manifest=job["manifest"], rm_conf=job["rm_conf"], tmp_path=out_root, archive_name="archive", compress=False)
    res["output_path"] = output_path
except Exception as ex:
    res["raised"] = repr(ex)
sys.stdout.write(json.dumps(res))
"""


def gen_collect(rng, tier):
    """a complete collection through insights.collect.collect() in a child interpreter: a throw-away spec package, a manifest
    that enables it by name prefix (as the shipped manifest does), and a deny list of the user"""
    specs = []
    for k in range(rng.randint(3, 6)):
        kind = rng.choice(["file", "file", "cmd"])
        specs.append({"name": "s%d" % k, "kind": kind})
    deny = {"components": [], "files": [], "commands": []}
    for s in specs:
        r = rng.random()
        if r < 0.25:
            deny["components"].append(s["name"])                 # by component name
        elif r < 0.4:
            deny[rng.choice(["files", "commands"])].append("@symbolic:" + s["name"])   # by the spec's symbolic name
        elif r < 0.55:
            deny["files" if s["kind"] == "file" else "commands"].append("@literal:" + s["name"])   # by path / command line
    return {"mode": "collect", "specs": specs, "deny": deny, "default_enabled": rng.random() < 0.3,
            "prefix": rng.choice(["class", "package", "each"])}


def run_collect_mode(spec, ctx):
    import json
    import subprocess
    import textwrap
    with Scratch() as top:
        uid = next(_UID)
        pkg = "vpc06_pkg_%d_%d" % (os.getpid(), uid)
        os.makedirs(os.path.join(top, "mod"))
        files, cmds, lines = {}, {}, []
        for s in spec["specs"]:
            if s["kind"] == "file":
                p_ = os.path.join(top, "src", s["name"] + ".conf")
                os.makedirs(os.path.dirname(p_), exist_ok=True)
                with open(p_, "w") as fh:
                    fh.write("CONTENT-OF-%s\n" % s["name"])
                files[s["name"]] = p_
                lines.append("    %s = simple_file(%r)" % (s["name"], p_))
            else:
                marker = os.path.join(top, "ran_" + s["name"])
                cmds[s["name"]] = "/bin/sh -c 'echo CONTENT-OF-%s; echo x > %s'" % (s["name"], marker)
                lines.append("    %s = simple_command(%r)" % (s["name"], cmds[s["name"]]))
        with open(os.path.join(top, "mod", pkg + ".py"), "w") as fh:
            fh.write("from insights.core.spec_factory import RegistryPoint, SpecSet, simple_command, simple_file\n\n\nclass Specs(SpecSet):\n" +
                     "".join("    %s = RegistryPoint()\n" % s["name"] for s in spec["specs"]) + "\n\nclass Impl(Specs):\n" + "\n".join(lines) + "\n")
        configs = [{"name": "insights.core.spec_factory", "enabled": True}]
        if spec["prefix"] == "package":
            configs.append({"name": pkg, "enabled": True})
        elif spec["prefix"] == "class":
            configs += [{"name": pkg + ".Specs", "enabled": True}, {"name": pkg + ".Impl", "enabled": True}]
        else:
            configs += [{"name": pkg + ".Specs", "enabled": True}] + [{"name": "%s.Impl.%s" % (pkg, s["name"]), "enabled": True} for s in spec["specs"]]
        manifest = {"version": 0,
                    "client": {"context": {"class": "insights.core.context.HostContext", "args": {"timeout": 10}},
                               "blacklist": {"files": [], "commands": [], "patterns": [], "keywords": []},
                               "persist": [{"name": pkg + ".Specs", "enabled": True}],
                               "run_strategy": {"name": "serial", "args": {"max_workers": None}}},
                    "plugins": {"default_component_enabled": bool(spec["default_enabled"]), "packages": [pkg], "configs": configs}}
        rm_conf = {"components": ["%s.Impl.%s" % (pkg, n) for n in spec["deny"]["components"]], "files": [], "commands": []}
        denied = set(spec["deny"]["components"])
        for sect in ("files", "commands"):
            for e in spec["deny"][sect]:
                how, n = e.split(":", 1)
                kind_ = [s["kind"] for s in spec["specs"] if s["name"] == n][0]
                if how == "@symbolic":
                    # a symbolic name is looked up among the shipped default specs only (insights.specs.default.DefaultSpecs):
                    # for a foreign package it names nothing - kept in the list as a near miss
                    rm_conf[sect].append(n)
                else:
                    rm_conf[sect].append(files[n] if kind_ == "file" else cmds[n])
                    denied.add(n)
        job = os.path.join(top, "job.json")
        with open(job, "w") as fh:
            json.dump({"top": top, "manifest": manifest, "rm_conf": rm_conf}, fh)
        try:
            cp = subprocess.run([sys.executable, "-c", COLLECT_CHILD, job], stdout=subprocess.PIPE, stderr=subprocess.PIPE, timeout=300, env=dict(os.environ))
            doc = json.loads(cp.stdout.decode()) if cp.returncode == 0 else None
        except (subprocess.TimeoutExpired, ValueError):
            cp, doc = None, None
        if doc is None or doc.get("raised"):
            ctx.count("harness_errors")
            ctx.sets.setdefault("harness_error_texts", set()).add("collect child: %s" % ((doc or {}).get("raised") or (cp.stderr.decode("utf-8", "replace")[-500:] if cp else "timeout")))
            return False
        ctx.count("complete_collections_through_collect")
        outp = doc["output_path"]
        stored = {}
        for d_, _, ns in os.walk(outp):
            for n_ in ns:
                fp = os.path.join(d_, n_)
                if os.sep + "meta_data" + os.sep in fp:
                    continue
                try:
                    with open(fp, "rb") as fh:
                        stored[fp] = fh.read().decode("utf-8", "replace")
                except OSError:
                    pass
        w = {"deny": spec["deny"], "manifest_enables": spec["prefix"], "default_component_enabled": spec["default_enabled"]}
        allowed_seen = 0
        for s in spec["specs"]:
            n = s["name"]
            token = "CONTENT-OF-%s" % n
            persisted = [fp for fp, txt in stored.items() if token in txt]
            opened = s["kind"] == "file" and any(e[0] == "open" and e[1] == files[n] for e in doc["events"])
            ran = s["kind"] == "cmd" and os.path.exists(os.path.join(top, "ran_" + n))
            if n in denied:
                ctx.count("denied_components_checked_in_complete_collections")
                if opened:
                    ctx.violation("deny-listed-file-opened", dict(w, component=n, through="insights.collect.collect"))
                if ran:
                    ctx.violation("deny-listed-command-executed", dict(w, component=n, through="insights.collect.collect"))
                if persisted:
                    ctx.violation("deny-listed-content-persisted", dict(w, component=n, where=[p.replace(top, "<top>") for p in persisted[:2]]))
            elif persisted:
                allowed_seen += 1
        for fp in stored:
            if not within(fp, outp):
                ctx.violation("write-outside-output-directory", dict(w, path=fp.replace(top, "<top>")))
        if allowed_seen:
            ctx.count("complete_collections_with_allowed_content_persisted")
        return bool(denied)


def gen_case(rng, tier, idx):
    if idx % 25 == 24:
        return gen_collect(rng, tier)
    m = idx % 3
    if m == 0:
        return gen_contain(rng, tier)
    if m == 1:
        return gen_deny(rng, tier)
    return gen_write(rng, tier)


def gen_contain(rng, tier):
    root_name = rng.choice(["root", "r", "archive", "host0"])
    siblings = [root_name + s for s in rng.sample(["_evil", "fs", "2", ".bak", "-x"], rng.randint(1, 3))] + ["other"]
    inside_dirs = ["etc", "etc/sub", "var", "var/log/deep"]
    inside = ["etc/a.txt", "etc/sub/b.txt", "var/c.txt", "var/log/deep/d.log", "top.txt"]
    outside = [s + "/secret" for s in siblings] + ["top_secret", siblings[0] + "/dir/inner"]
    links = []
    names = []
    for k in range(rng.randint(2, 8)):
        where = rng.choice(["etc", "etc/sub", "var", "", "var/log/deep"])
        name = (where + "/" if where else "") + "l%d" % k
        t = rng.random()
        if t < 0.35:
            target = rng.choice(outside)
        elif t < 0.5:
            target = rng.choice([os.path.dirname(o) or "." for o in outside])      # outside directory
        elif t < 0.65:
            target = rng.choice(inside)
        elif t < 0.75:
            target = rng.choice(inside_dirs)
        elif t < 0.85 and names:
            target = "@" + rng.choice(names)                                        # chain to another link
        elif t < 0.92:
            target = "@parent"
        else:
            target = "@dangling"
        links.append([name, rng.choice(["abs", "rel"]), target])
        names.append(name)
    probes = []
    pool = list(inside) + names + [n + "/secret" for n in names] + [n + "/inner" for n in names] + [n + "/a.txt" for n in names]
    # '..' behind a link: the kernel applies it after following the link (root/l -> elsewhere/dir ; l/../secret = elsewhere/secret)
    pool += [n + "/../" + t for n in names for t in ("secret", "inner", "dir/inner", "top_secret", "../top_secret", "a.txt", "*")]
    for _ in range(rng.randint(10, 22)):
        kind = rng.random()
        if kind < 0.35:
            path = rng.choice(pool)
        elif kind < 0.7:
            # k '..' segments from a directory inside the root, then an outside target
            start = rng.choice(["", "etc", "etc/sub", "var/log/deep"])
            depth = len([x for x in start.split("/") if x])
            ups = depth + rng.randint(0, 2) if rng.random() < 0.8 else rng.randint(0, 6)
            tail = rng.choice(outside + [root_name + "/etc/a.txt", root_name + "/" + rng.choice(inside)])
            path = (start + "/" if start else "") + "../" * ups + tail
        elif kind < 0.74:
            # several leading slashes in front of a name that exists on the real host (but not below the scratch root):
            # still relative to the root of the context
            path = rng.choice(["//", "///", "/./", "//./"]) + rng.choice(["etc/passwd", "etc/hosts", "etc/group", "proc/version"])
        elif kind < 0.8:
            path = "//" + rng.choice(inside).replace("/", "//")
        elif kind < 0.9:
            path = "@CLIMB%d@" % rng.randint(1, 4) + rng.choice(inside)
        else:
            path = "/" + rng.choice(pool)
        factory = rng.choice(["simple_file", "simple_file", "glob_file", "first_file", "foreach_collect", "provider"])
        if factory == "glob_file" and rng.random() < 0.5:
            path = rng.choice(["etc/*", "etc/*/*", "*/*", "var/*", "*", "etc/l*", "../*/secret", "../" + root_name + "*/secret"] +
                              [n + "/../*" for n in names[:3]] + [n + "/../*/*" for n in names[:2]])
        probes.append({"factory": factory, "path": path, "ctx": rng.choice(CTXS), "kind": rng.choice(["text", "text", "raw"]), "walk": rng.random() < 0.5})
    return {"mode": "contain", "root_name": root_name, "siblings": siblings, "inside": inside, "outside": outside,
            "links": links, "probes": probes}


def gen_deny(rng, tier):
    files = ["/etc/f1", "/etc/f10", "/etc/f1.conf", "/etc/g1", "/etc/g2", "/etc/x1", "/etc/x2", "/data/i1.conf", "/data/i2.conf",
             "/data/i10.conf", "/etc/with space", "/etc/c1", "/etc/app[1].log", "/etc/app1.log", "/etc/z[ab]", "/etc/za", "/etc/q?x", "/etc/q*x"]
    cmds = ["/bin/echo alpha", "/bin/echo alphabet", "/bin/echo alpha beta", "/bin/cat /etc/c1", "/usr/bin/printf x", "/bin/echo [secret]", "/bin/echo s*t ?",
            "/bin/echo 'quoted arg' tail", "/bin/sh -c 'echo hi there'", "/bin/echo \"dq arg\" x", "/bin/echo a\\ b"]
    items = ["i1", "i2", "i10"]
    specs = [
        {"name": "s_simple", "kind": "simple_file", "path": rng.choice(files)},
        {"name": "s_simple2", "kind": "simple_file", "path": rng.choice(files)},
        {"name": "s_glob", "kind": "glob_file", "path": rng.choice(["/etc/g*", "/etc/f1*", "/etc/*", "/data/*.conf"])},
        {"name": "s_first", "kind": "first_file", "paths": rng.sample(files, 3)},
        {"name": "s_each", "kind": "foreach_collect", "path": "/data/%s.conf", "items": rng.sample(items, rng.randint(1, 3))},
        {"name": "s_cmd", "kind": "simple_command", "cmd": rng.choice(cmds)},
        {"name": "s_cmd2", "kind": "simple_command", "cmd": rng.choice(cmds)},
        {"name": "s_args", "kind": "command_with_args", "cmd": "/bin/echo %s", "arg": rng.choice(["alpha", "alphabet", "alpha beta", "gamma"])},
        {"name": "s_exec", "kind": "foreach_execute", "cmd": "/bin/echo %s", "items": rng.sample(["alpha", "alphabet", "alpha beta", "gamma", "delta", "'q item' z"], rng.randint(1, 4))},
        {"name": "s_cexec", "kind": "container_execute", "cmd": rng.choice(["cat /etc/c1", "ls /", "cat %s"]),
         "items": [["img", rng.choice(["podman", "docker"]), "cid%d" % k] for k in range(rng.randint(1, 2))]},
        {"name": "s_ccoll", "kind": "container_collect", "path": rng.choice(["/etc/c1", "/etc/cc"]),
         "items": [["img", rng.choice(["podman", "docker"]), "cid%d" % k] for k in range(rng.randint(1, 2))]},
    ]
    for s in specs:
        s["filterable"] = rng.random() < 0.3
        s["filters"] = rng.sample(["line", "x", "alpha", "-"], rng.randint(1, 2)) if s["filterable"] and rng.random() < 0.8 else []
    # all paths / command lines the specs can touch
    all_files = set(files)
    all_cmds = set(cmds) | set("/bin/echo %s" % a for a in ["alpha", "alphabet", "alpha beta", "gamma", "delta", "'q item' z"])
    for s in specs:
        if s["kind"] == "container_execute":
            for it in s["items"]:
                c = s["cmd"] % "/etc/c1" if "%s" in s["cmd"] else s["cmd"]
                all_cmds.add("/usr/bin/%s exec %s %s" % (it[1], it[2], c))
        if s["kind"] == "container_collect":
            for it in s["items"]:
                all_cmds.add("/usr/bin/%s exec %s cat %s" % (it[1], it[2], s["path"]))
    deny_files = rng.sample(sorted(all_files), rng.randint(0, 4))
    deny_cmds = rng.sample(sorted(all_cmds), rng.randint(0, 4))
    # near misses: proper prefixes / extensions of something real
    for _ in range(rng.randint(0, 3)):
        f = rng.choice(sorted(all_files))
        deny_files.append(rng.choice([f[:-1], f + "x", f.upper(), f + "/", os.path.dirname(f)]))
    for _ in range(rng.randint(0, 3)):
        c = rng.choice(sorted(all_cmds))
        deny_cmds.append(rng.choice([c[:-1], c + "x", c.split()[0], c.replace(" ", "  ", 1), " " + c]))
    quoted = [c for c in sorted(all_cmds) if "'" in c or '"' in c or "\\" in c]
    if quoted and rng.random() < 0.5:
        q = rng.choice(quoted)
        # entries spelled as the spec writes the command, reaching into / past the quoted part
        deny_cmds.append(rng.choice([q, q[:q.rfind("'") + 1] if "'" in q else q, q.rsplit(" ", 1)[0]]))
    symbolic = rng.sample([s["name"] for s in specs], rng.randint(0, 2))
    comps = rng.sample([s["name"] for s in specs], rng.randint(0, 2))
    where = rng.choice(["files", "commands"])
    return {"mode": "deny", "files": files, "specs": specs, "deny_files": deny_files, "deny_cmds": deny_cmds,
            "symbolic": symbolic, "symbolic_in": where, "components": comps, "persist": rng.random() < 0.6}


def gen_write(rng, tier):
    files = {}
    for k in range(rng.randint(2, 6)):
        files[rng.choice(["etc", "etc/sub", "var/log", "data"]) + "/w%d.txt" % k] = rng.randint(1, 4)
    names = sorted(files)
    specs = []
    for k in range(rng.randint(2, 7)):
        kind = rng.choice(["simple_file", "simple_file", "glob_file", "first_file", "foreach_collect", "simple_command",
                           "foreach_execute", "raw_file", "datasource_provider"])
        sa = rng.choice([None, None, "renamed_%d.txt" % k, "dir_%d/" % k, "@BASE@/abs_%d/x.txt" % k, "deep/er/dir_%d/" % k])
        p = rng.choice(names)
        r = rng.random()
        if r < 0.25:
            p = "@CLIMB%d@" % rng.randint(1, 5) + p
        elif r < 0.35:
            d = os.path.dirname(p)
            p = d + "/../" + os.path.basename(d) + "/" + os.path.basename(p) if "/" not in d else p
        elif r < 0.45:
            p = "/" + p.replace("/", "//")
        else:
            p = "/" + p
        s = {"kind": kind, "path": p, "save_as": sa}
        if kind == "glob_file":
            s["path"] = rng.choice(["/etc/*", "/*/*.txt", "/etc/*/*", "@CLIMB2@etc/*"])
        if kind in ("simple_command", "foreach_execute"):
            s["cmd"] = rng.choice(["/bin/echo out%d" % k, "/bin/cat %s"])
        specs.append(s)
    links = {}
    if rng.random() < 0.5:
        # symlinks inside the root whose (absolute or relative) target is another file inside the root: collected
        # like any file; what is persisted must be a copy beneath the output directory, not a link back to the host
        for k in range(rng.randint(1, 3)):
            ln = rng.choice(["etc", "var/log", "data"]) + "/ln%d.txt" % k
            links[ln] = [rng.choice(names), rng.choice(["abs", "rel"])]
            specs.append({"kind": rng.choice(["raw_file", "raw_file", "simple_file", "glob_file"]), "path": "/" + ln, "save_as": rng.choice([None, None, "lnk_%d/" % k])})
            if specs[-1]["kind"] == "glob_file":
                specs[-1]["path"] = "/" + os.path.dirname(ln) + "/ln*"
    return {"mode": "write", "root_name": rng.choice(["root", "r"]), "files": files, "specs": specs, "out_depth": rng.randint(0, 3), "links": links}


def nontrivial(spec):
    if spec["mode"] == "collect":
        return True
    if spec["mode"] == "deny":
        return bool(spec["deny_files"] or spec["deny_cmds"] or spec["components"] or spec["symbolic"])
    return True


# --------------------------------------------------------------------------
# helpers
# --------------------------------------------------------------------------
def within(path, root):
    rp, rr = os.path.realpath(path), os.path.realpath(root)
    try:
        return os.path.commonpath([rp, rr]) == rr
    except ValueError:
        return False


def climb(path, root, base):
    """@CLIMBk@rest -> k '..' above the root, then back down into it by naming the real directories"""
    if not path.startswith("@CLIMB"):
        return path
    k = int(path[6])
    rest = path[8:]
    parts = os.path.realpath(root).strip("/").split("/")
    k = min(k, len(parts))
    back = "/".join(parts[len(parts) - k:])
    return "../" * k + back + "/" + rest.lstrip("/")


class Scratch(object):
    def __enter__(self):
        self.base = tempfile.mkdtemp(prefix="vpc06_")
        return self.base

    def __exit__(self, *a):
        shutil.rmtree(self.base, ignore_errors=True)
        return False


def new_module():
    uid = next(_UID)
    name = "vpmon_c06.m%d" % uid
    sys.modules[name] = types.ModuleType(name)
    return uid, name


def ctx_class(name):
    from insights.core import context
    return getattr(context, name)


def strip_timeout(argv):
    if len(argv) > 4 and os.path.basename(argv[0]) == "timeout" and argv[1] == "-s":
        return argv[4:]
    return argv


# --------------------------------------------------------------------------
# (a) containment
# --------------------------------------------------------------------------
def run_contain(spec, ctx):
    from insights.core import dr, filters
    from insights.core.plugins import datasource
    from insights.core.spec_factory import (RawFileProvider, TextFileProvider, first_file, foreach_collect, glob_file,
                                            simple_file)
    from vpmon import audit
    from vpmon import gen_graph as G
    created = []
    uid, modname = new_module()
    with Scratch() as base:
        root = os.path.join(base, spec["root_name"])
        canaries = {}
        for rel in spec["inside"]:
            p = os.path.join(root, rel)
            os.makedirs(os.path.dirname(p), exist_ok=True)
            with open(p, "w") as f:
                f.write("INSIDE %s\nline two\n" % rel)
        for rel in spec["outside"]:
            p = os.path.join(base, rel)
            os.makedirs(os.path.dirname(p), exist_ok=True)
            tok = "CANARY_%d_%s" % (uid, rel.replace("/", "_"))
            canaries[os.path.realpath(p)] = tok
            with open(p, "w") as f:
                f.write("%s\nsecond %s\n" % (tok, tok))
        for name, mode, target in spec["links"]:
            lp = os.path.join(root, name)
            os.makedirs(os.path.dirname(lp), exist_ok=True)
            if target == "@parent":
                tp = base
            elif target == "@dangling":
                tp = os.path.join(base, "nowhere", "x")
            elif target.startswith("@"):
                tp = os.path.join(root, target[1:])
            elif target in spec["inside"] or os.path.isdir(os.path.join(root, target)):
                tp = os.path.join(root, target)
            else:
                tp = os.path.join(base, target)
            if mode == "rel":
                tp = os.path.relpath(tp, os.path.dirname(lp))
            try:
                os.symlink(tp, lp)
            except OSError:
                pass
        for pr in spec["probes"]:
            cls = ctx_class(pr["ctx"])
            ectx = cls(root) if pr["ctx"] != "HostContext" else cls(root=root)
            if pr.get("walk") and pr["ctx"] != "HostContext":
                # the context as insights.run(root=...) builds it: with the list of files the archive walker found
                from insights.core import hydration
                ectx = cls(root, all_files=list(hydration.get_all_files(root)))
                ctx.count("containment_probes_with_a_walked_file_list")
            path = climb(pr["path"], root, base)
            kind = RawFileProvider if pr["kind"] == "raw" else TextFileProvider
            br = dr.Broker()
            br[cls] = ectx
            providers = []
            case = dict(spec, probes=[pr])          # replayable: the whole layout with this one probe
            nt = (".." in path) or any(path.startswith(l[0]) or ("/" + l[0]) in ("/" + path) for l in spec["links"]) or "*" in path
            with audit.record() as events:
                try:
                    f = pr["factory"]
                    if f == "provider":
                        providers = [kind(path, root=root, ctx=ectx)]
                    else:
                        if f == "simple_file":
                            ds = simple_file(path, context=cls, kind=kind)
                        elif f == "glob_file":
                            ds = glob_file(path, context=cls, kind=kind)
                        elif f == "first_file":
                            ds = first_file(["nonexistent/zzz", path], context=cls, kind=kind)
                        else:
                            def prov(broker, _p=path):
                                return [_p]
                            prov.__name__ = prov.__qualname__ = "prov%d_%d" % (uid, len(created))
                            prov.__module__ = modname
                            pds = datasource(cls)(prov)
                            created.append(pds)
                            ds = foreach_collect(pds, "%s", context=cls, kind=kind)
                        created.append(ds)
                        dr.run(dr.get_dependency_graph(ds), broker=br)
                        v = br.get(ds)
                        if v is not None:
                            providers = v if isinstance(v, list) else [v]
                except Exception:
                    ctx.count("probe_rejected_by_exception")
                for p in providers:
                    ctx.count("providers_returned")
                    if not within(p.path, root):
                        ctx.violation("provider-for-path-outside-root", {"path": path, "provider_path": p.path.replace(base, "<base>"),
                                                                          "real": os.path.realpath(p.path).replace(base, "<base>"),
                                                                          "root": root.replace(base, "<base>"), "factory": pr["factory"], "ctx": pr["ctx"]}, spec=case)
                    texts = []
                    try:
                        c = p.content
                        texts.append(c.decode("utf-8", "replace") if isinstance(c, bytes) else "\n".join(c))
                        ctx.count("contents_read")
                    except Exception:
                        ctx.count("content_raised")
                    if pr["kind"] != "raw":
                        try:
                            p2 = kind(p.relative_path, root=root, ctx=ectx)
                            texts.append("\n".join(p2.stream()))
                            ctx.count("streams_read")
                        except Exception:
                            pass
                    for t in texts:
                        for rp, tok in canaries.items():
                            if tok in t:
                                ctx.violation("content-from-outside-root", {"path": path, "leaked_file": rp.replace(base, "<base>"),
                                                                             "root": root.replace(base, "<base>"), "factory": pr["factory"], "ctx": pr["ctx"]}, spec=case)
            ctx.count("audit_events_seen", len(events))
            for ev in events:
                if ev[0] == "open" and os.path.realpath(ev[1]) in canaries:
                    ctx.violation("outside-file-opened", {"path": path, "opened": ev[1].replace(base, "<base>"), "factory": pr["factory"]}, spec=case)
                if ev[0] == "popen":
                    for a in ev[1]:
                        if a.startswith("/") and os.path.realpath(a) in canaries:
                            ctx.violation("outside-file-handed-to-command", {"path": path, "argv": [x.replace(base, "<base>") for x in ev[1]]}, spec=case)
            ctx.note_case(case, nt)
            if nt and len(ctx.samples) < 2:
                ctx.sample(case)
    for c in created:
        G._unregister(c)
    sys.modules.pop(modname, None)


# --------------------------------------------------------------------------
# shared: build a SpecSet from spec descriptions
# --------------------------------------------------------------------------
def build_specs(specs, uid, modname, root, created, cls_name=None):
    """returns {name: (point, impl)}"""
    from insights.core import dr, filters
    from insights.core.context import HostContext
    from insights.core.plugins import datasource
    from insights.core import spec_factory as sf
    dct = {"__module__": modname}
    for s in specs:
        dct[s["name"]] = sf.RegistryPoint(multi_output=s["kind"] in ("glob_file", "foreach_collect", "foreach_execute", "container_execute", "container_collect"),
                                          filterable=bool(s.get("filterable")), raw=s["kind"] == "raw_file")
    S = type("S%d" % uid, (sf.SpecSet,), dct)
    body = {"__module__": modname if cls_name is None else "insights.specs.default"}
    for s in specs:
        k = s["kind"]
        sa = s.get("save_as")
        kw = {"save_as": sa} if sa else {}

        def mkprov(items):
            def prov(broker):
                return [tuple(i) if isinstance(i, list) else i for i in items]
            prov.__name__ = prov.__qualname__ = "prov%d_%s" % (uid, s["name"])
            prov.__module__ = modname
            d = datasource(HostContext)(prov)
            created.append(d)
            return d
        if k == "simple_file":
            d = sf.simple_file(s["path"], context=HostContext, **kw)
        elif k == "raw_file":
            d = sf.simple_file(s["path"], context=HostContext, kind=sf.RawFileProvider, **kw)
        elif k == "glob_file":
            d = sf.glob_file(s["path"], context=HostContext, **({"save_as": sa} if sa and sa.endswith("/") else {}))
        elif k == "first_file":
            d = sf.first_file(s.get("paths") or ["/nonexistent/zz", s["path"]], context=HostContext, **kw)
        elif k == "foreach_collect":
            items = s.get("items") or [s["path"]]
            d = sf.foreach_collect(mkprov(items), s["path"] if s.get("items") else "%s", context=HostContext,
                                   **({"save_as": sa} if sa and sa.endswith("/") else {}))
        elif k == "simple_command":
            cmd = s["cmd"] if "%s" not in s["cmd"] else s["cmd"] % os.path.join(root, s.get("path", "/etc/c1").lstrip("/"))
            d = sf.simple_command(cmd, **({"save_as": sa} if sa and not sa.endswith("/") else {}))
        elif k == "command_with_args":
            def argprov(broker, _a=s["arg"]):
                return _a
            argprov.__name__ = argprov.__qualname__ = "arg%d_%s" % (uid, s["name"])
            argprov.__module__ = modname
            ad = datasource(HostContext)(argprov)
            created.append(ad)
            d = sf.command_with_args(s["cmd"], ad)
        elif k == "foreach_execute":
            items = s.get("items") or [os.path.join(root, s.get("path", "/etc/c1").lstrip("/"))]
            d = sf.foreach_execute(mkprov(items), s["cmd"] if "%s" in s["cmd"] else s["cmd"] + " %s")
        elif k == "container_execute":
            items = [list(i) + (["/etc/c1"] if "%s" in s["cmd"] else []) for i in s["items"]]
            d = sf.container_execute(mkprov(items), s["cmd"])
        elif k == "container_collect":
            d = sf.container_collect(mkprov(s["items"]), s["path"])
        elif k == "datasource_provider":
            def dsp(broker, _s=s):
                return sf.DatasourceProvider(["in-memory line 1", "line 2"], relative_path=_s["path"].replace("@", "_"), save_as=_s.get("save_as"))
            dsp.__name__ = dsp.__qualname__ = "dsp%d_%s" % (uid, s["name"])
            dsp.__module__ = modname
            d = datasource(HostContext)(dsp)
        else:
            raise ValueError(k)
        created.append(d)
        body[s["name"]] = d
    I = type(cls_name or ("I%d" % uid), (S,), body)
    out = {}
    for s in specs:
        p = getattr(S, s["name"])
        created.append(p)
        out[s["name"]] = (p, getattr(I, s["name"]))
        if s.get("filters"):
            filters.add_filter(p, s["filters"])
    return out


def clear_global_state(created):
    from insights.core import blacklist, dr, filters
    from vpmon import gen_graph as G
    for c in created:
        G._unregister(c)
        filters.FILTERS.pop(c, None)
    filters._CACHE.clear()
    blacklist._FILE_FILTERS.clear()
    blacklist._COMMAND_FILTERS.clear()
    del blacklist.BLACKLISTED_SPECS[:]
    dr.COMPONENTS_BY_NAME.clear()
    dr.COMPONENT_IMPORT_CACHE.clear()


# --------------------------------------------------------------------------
# (b) deny list
# --------------------------------------------------------------------------
def run_deny(spec, ctx):
    from insights import collect
    from insights.core import dr
    from insights.core import spec_factory as sf
    from insights.core.context import HostContext
    from insights.core.serde import Hydration
    from vpmon import audit
    uid, modname = new_module()
    created = []
    orig_which = sf.which

    def which(cmd, env=None):
        if cmd in ("/usr/bin/podman", "/usr/bin/docker"):
            return cmd
        return orig_which(cmd, env=env)
    real_attrs = []
    with Scratch() as base:
        root = os.path.join(base, "hostroot")
        for f in spec["files"]:
            p = os.path.join(root, f.lstrip("/"))
            os.makedirs(os.path.dirname(p), exist_ok=True)
            with open(p, "w") as fh:
                fh.write("line one of %s\nx alpha line\n- dash line\n" % f)
        sf.which = which
        try:
            # the symbolic-name form of the deny list addresses insights.specs.default.DefaultSpecs.<name>
            for s in spec["specs"]:
                s["name"] = s["name"].split("__")[0] + "__%d" % uid
            built = build_specs(spec["specs"], uid, modname, root, created, cls_name="DefaultSpecs")
            # make the generated implementations resolvable by name the way collect.apply_blacklist resolves
            # them (dr.set_enabled imports insights.specs.default.DefaultSpecs.<name>)
            from insights.specs.default import DefaultSpecs as RealDefaultSpecs
            for nm, (p_, i_) in built.items():
                setattr(RealDefaultSpecs, nm, i_)
                real_attrs.append(nm)
            names = dict((s["name"].split("__")[0], s["name"]) for s in spec["specs"])
            cfg = {"files": list(spec["deny_files"]), "commands": list(spec["deny_cmds"]),
                   "components": [dr.get_name(built[names[n]][1]) for n in spec["components"]]}
            cfg[spec["symbolic_in"]] = cfg[spec["symbolic_in"]] + [names[n] for n in spec["symbolic"]]
            disabled = set(names[n] for n in spec["components"]) | set(names[n] for n in spec["symbolic"])
            collect.apply_blacklist(cfg)
            br = dr.Broker()
            br[HostContext] = HostContext(root=root)
            out = os.path.join(base, "out")
            os.makedirs(out)
            h = Hydration(out, br[HostContext])
            graph = {}
            for name, (p, i) in built.items():
                graph.update(dr.get_dependency_graph(p))
            if spec["persist"]:
                br.add_observer(h.make_persister(set(p for p, i in built.values())))
            with audit.record() as events:
                dr.run(graph, broker=br)
                # force every provider
                for name, (p, i) in built.items():
                    v = br.get(p)
                    for prov in (v if isinstance(v, list) else [v] if v is not None else []):
                        try:
                            prov.content
                        except Exception:
                            pass
                        try:
                            prov.loaded = False
                            prov._content = None
                            list(prov.stream())
                        except Exception:
                            pass
                        ctx.count("providers_forced")
            ctx.count("deny_runs")
            ctx.count("audit_events_seen", len(events))
            deny_files = set(spec["deny_files"])
            deny_cmds = set(spec["deny_cmds"])
            # every command line a spec of this case can produce, as written, keyed by the argv it is executed with
            import shlex
            written = {}
            for s_ in spec["specs"]:
                lines_ = []
                if s_["kind"] == "simple_command":
                    lines_ = [s_["cmd"]]
                elif s_["kind"] == "command_with_args":
                    lines_ = [s_["cmd"] % s_["arg"]]
                elif s_["kind"] == "foreach_execute":
                    lines_ = [(s_["cmd"] if "%s" in s_["cmd"] else s_["cmd"] + " %s") % it for it in s_["items"]]
                for ln_ in lines_:
                    try:
                        written.setdefault(tuple(shlex.split(ln_)), set()).add(ln_)
                    except ValueError:
                        pass
            opened, executed = set(), set()
            for ev in events:
                if ev[0] == "open" and ev[1].startswith(root):
                    rel = ev[1][len(root):]
                    opened.add(rel)
                elif ev[0] == "popen":
                    argv = strip_timeout(list(ev[1]))
                    line = " ".join(argv)
                    executed.add(line)
                    for ln_ in written.get(tuple(argv), ()):
                        executed.add(ln_)
                    for a in argv[1:]:
                        if a.startswith(root):
                            opened.add(a[len(root):])      # a file handed to grep/cat/cp
            for rel in opened:
                if rel in deny_files:
                    ctx.violation("deny-listed-file-opened", {"file": rel, "deny_files": sorted(deny_files)})
            for line in executed:
                for d in deny_cmds:
                    if d and (line == d or line.startswith(d + " ")):
                        ctx.violation("deny-listed-command-executed", {"command": line, "deny_entry": d})
            # ---- the same deny list with the root of a real host ('/'): the files live below the scratch area but are named by
            # their absolute path, spelled with one or several leading slashes (legal: still the same file)
            from insights.core import blacklist
            from insights.core.exceptions import BlacklistedSpec, ContentException
            for rel in sorted(deny_files)[:3]:
                absf = os.path.join(root, rel.lstrip("/"))
                if not os.path.isfile(absf):
                    continue
                blacklist.add_file(absf)
                try:
                    for spelling in ("", "/", "//"):
                        with audit.record() as ev2:
                            try:
                                prov_ = sf.TextFileProvider(spelling + absf, root="/", ctx=HostContext(root="/"))
                                prov_.content
                            except (BlacklistedSpec, ContentException):
                                pass
                            except Exception:
                                ctx.count("root_probe_raised_otherwise")
                        ctx.count("deny_probes_with_the_host_root")
                        if any(e[0] == "open" and os.path.realpath(e[1]) == os.path.realpath(absf) for e in ev2):
                            ctx.violation("deny-listed-file-opened", {"file": rel, "spelled": spelling + "<scratch>" + rel, "root": "/"})
                finally:
                    blacklist._FILE_FILTERS.discard(absf) if hasattr(blacklist._FILE_FILTERS, "discard") else None
            ctx.count("files_opened_during_collection", len(opened))
            ctx.count("commands_executed_during_collection", len(executed))
            ctx.count("deny_entries", len(deny_files) + len(deny_cmds))
            hits = sum(1 for s in spec["specs"] if s.get("path") in deny_files or s.get("cmd") in deny_cmds)
            ctx.count("specs_hit_by_deny_list", hits)
            # disabled components: never invoked, nothing opened/executed on their behalf, no value
            for s in spec["specs"]:
                if s["name"] in disabled:
                    p, i = built[s["name"]]
                    if i in br:
                        ctx.violation("disabled-component-produced-a-value", {"component": s["name"].split("__")[0], "kind": s["kind"]})
                    ctx.count("disabled_components_checked")
                    if s["kind"] in ("simple_file",) and s["path"] in opened and not any(
                            o["path"] == s["path"] for o in spec["specs"] if o.get("path") and o["name"] not in disabled and o is not s) \
                            and not any(s["path"] in (o.get("paths") or []) or o["kind"] in ("glob_file", "foreach_collect") for o in spec["specs"] if o["name"] not in disabled):
                        ctx.violation("disabled-component-file-opened", {"component": s["name"].split("__")[0], "file": s["path"]})
                    if s["kind"] == "simple_command" and s["cmd"] in executed and not any(
                            o.get("cmd") == s["cmd"] or o["kind"] in ("command_with_args", "foreach_execute") for o in spec["specs"] if o["name"] not in disabled and o is not s):
                        ctx.violation("disabled-component-command-executed", {"component": s["name"].split("__")[0], "cmd": s["cmd"]})
        finally:
            sf.which = orig_which
            if real_attrs:
                from insights.specs.default import DefaultSpecs as RealDefaultSpecs
                for nm in real_attrs:
                    try:
                        delattr(RealDefaultSpecs, nm)
                    except AttributeError:
                        pass
            clear_global_state(created)
            sys.modules.pop(modname, None)
            for s in spec["specs"]:
                s["name"] = s["name"].split("__")[0]


# --------------------------------------------------------------------------
# (c) writes stay beneath the output directory
# --------------------------------------------------------------------------
def snapshot(base):
    out = set()
    for d, dirs, files in os.walk(base):
        for n in dirs + files:
            out.add(os.path.join(d, n))
    return out


def run_write(spec, ctx):
    from insights.core import dr
    from insights.core.context import HostContext
    from insights.core.serde import Hydration
    from vpmon import audit
    uid, modname = new_module()
    created = []
    with Scratch() as base:
        root = os.path.join(base, spec["root_name"])
        for rel, n in spec["files"].items():
            p = os.path.join(root, rel)
            os.makedirs(os.path.dirname(p), exist_ok=True)
            with open(p, "w") as f:
                f.write("".join("content %s %d\n" % (rel, k) for k in range(n)))
        for ln, (target, how) in (spec.get("links") or {}).items():
            lp = os.path.join(root, ln)
            os.makedirs(os.path.dirname(lp), exist_ok=True)
            tp = os.path.join(root, target)
            os.symlink(tp if how == "abs" else os.path.relpath(tp, os.path.dirname(lp)), lp)
        source_before = dict((p_, open(p_, "rb").read()) for p_ in (os.path.join(d_, n_) for d_, _, ns in os.walk(root) for n_ in ns) if os.path.isfile(p_))
        out = os.path.join(base, *(["o%d" % k for k in range(spec["out_depth"])] + ["out"]))
        os.makedirs(out)
        specs = []
        for k, s in enumerate(spec["specs"]):
            s2 = dict(s)
            s2["name"] = "w%d" % k
            s2["path"] = climb(s["path"], root, base)
            if s2.get("save_as"):
                # an absolute save_as is documented to lose its leading '/'; it points into the scratch area so
                # that a factory that kept it absolute would be seen (and would do no harm)
                s2["save_as"] = s2["save_as"].replace("@BASE@", base)
                if s2["kind"] == "datasource_provider":
                    s2["save_as"] = s2["save_as"].lstrip("/")      # DatasourceProvider does not document stripping
            specs.append(s2)
        try:
            built = build_specs(specs, uid, modname, root, created)
            br = dr.Broker()
            br[HostContext] = HostContext(root=root)
            h = Hydration(out, br[HostContext])
            br.add_observer(h.make_persister(set(p for p, i in built.values())))
            graph = {}
            for name, (p, i) in built.items():
                graph.update(dr.get_dependency_graph(p))
            before = snapshot(base)
            with audit.record() as events:
                dr.run(graph, broker=br)
            after = snapshot(base)
            ctx.count("audit_events_seen", len(events))
            ctx.count("write_runs")
            new = after - before
            ctx.count("files_persisted", sum(1 for p in new if os.path.isfile(p)))
            for p_, data in source_before.items():
                try:
                    with open(p_, "rb") as fh:
                        now = fh.read()
                except OSError:
                    now = None
                if now != data:
                    ctx.violation("collection-modified-a-source-file", {"file": p_.replace(base, "<base>"), "spec_paths": [s2["path"] for s2 in specs]})
            for p_ in sorted(new):
                if os.path.islink(p_):
                    ctx.count("persisted_symlinks_seen")
            has_dotdot = any(".." in s2["path"] for s2 in specs)
            bad = []
            for p in sorted(new):
                if not within(p, out):
                    bad.append(("created", p))
            for ev in events:
                tgt = None
                if ev[0] == "open" and ev[2] == "w":
                    tgt = ev[1]
                elif ev[0] == "os.mkdir":
                    tgt = ev[1]
                elif ev[0] == "popen" and ev[1] and os.path.basename(ev[1][0]) == "cp":
                    tgt = ev[1][-1]
                if tgt is not None and not str(tgt).startswith("/dev/"):
                    ctx.count("write_events_checked")
                    if not within(os.path.join(os.getcwd(), str(tgt)), out):
                        bad.append((ev[0], str(tgt)))
            # what escaped from the scratch area altogether is removed again (recognised by the unique name of this run's
            # scratch directory among its path components - nothing else is ever deleted)
            mark = os.path.basename(base)
            for how, p in bad:
                parts = os.path.abspath(os.path.join(os.getcwd(), p)).split(os.sep)
                if mark in parts:
                    top = os.sep.join(parts[:parts.index(mark) + 1])
                    if os.path.realpath(top) != os.path.realpath(base) and os.path.isdir(top) and not os.path.islink(top):
                        shutil.rmtree(top, ignore_errors=True)
                        ctx.count("escaped_scratch_copies_removed")
            for how, p in bad[:3]:
                # classifier: the escaping path is explained by '..' segments kept in a persisted relative path
                dotdot = ".." in p or has_dotdot
                mech = "persisted-relative-path-keeps-dotdot-segments" if dotdot and _explained_by_dotdot(p, specs, out, root) else "write-outside-output-directory"
                ctx.violation(mech, {"how": how, "path": p.replace(base, "<base>"), "out": out.replace(base, "<base>"),
                                     "spec_paths": [s2["path"] for s2 in specs]})
        finally:
            clear_global_state(created)
            sys.modules.pop(modname, None)


def _explained_by_dotdot(p, specs, out, root):
    """True iff the escaping target is data_root joined with a spec path that keeps '..' segments
    (the recorded known finding), so any other escape is still reported"""
    data_root = os.path.join(out, "data")
    rp = os.path.realpath(p)
    for s in specs:
        path = s["path"]
        if ".." not in path:
            continue
        if "*" in path:
            prefix = os.path.normpath(os.path.join(data_root, path.lstrip("/").split("*")[0]))
            if rp.startswith(os.path.realpath(prefix)) or os.path.realpath(prefix).startswith(rp):
                return True
            continue
        cand = os.path.normpath(os.path.join(data_root, path.lstrip("/")))
        c = os.path.realpath(cand)
        if rp == c or c.startswith(rp + os.sep):
            return True
    return False


def run_case(spec, ctx):
    m = spec["mode"]
    if m == "collect":
        return run_collect_mode(spec, ctx)
    if m == "contain":
        run_contain(spec, ctx)
        ctx.evaluations -= 1
        return False
    if m == "deny":
        run_deny(spec, ctx)
        return nontrivial(spec)
    run_write(spec, ctx)
    return any(s.get("save_as") or ".." in s["path"] or "@CLIMB" in s["path"] for s in spec["specs"])
