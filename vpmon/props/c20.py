"""C20 - configuration-tree queries return exactly the matching nodes."""
import operator
import re

ID = "C20"
LEVEL = "exploration"
RULE = ("random Entry trees (depth <= 4, fan-out <= 4, names from a small pool with duplicates / case variants / None, attrs "
        "of str/int) built directly and through from_dict; per tree 20 queries of 1-3 levels made of literals, None, tuples "
        "(name, attr...), the exported predicates (eq lt le gt ge contains startswith endswith isin matches and the i... "
        "variants), any_/all_, & | ~ to depth 3, plain callables incl. raising ones, with deep/roots and through select, "
        "find, [] on Entry, Result and a ConfigComponent wrapper; oracle: identity-list equality with a naive matcher over "
        "the same nodes (document order; for deep multi-level queries equality as duplicate-free sets, order differences "
        "counted); every generated Boolean is also evaluated on every name and attribute value both ways (test vs "
        "to_pyfunc); in 40 % of the cases equal sub-expressions of all queries are ONE shared predicate object and bases a&b / a|b "
        "are extended in several queries; one evaluation = one query on one tree; non-trivial = the tree has >= 4 nodes and the query matches "
        "some but not all candidates; distinct by hash of (tree, query)")
ASSUMPTIONS = [
    "only trees whose parent links are set are queried (how every parser builds them)",
    "a raising leaf makes the whole compiled expression false; interpreted and compiled evaluation are compared only when no leaf raises on the value the interpreted path hands it",
    "result order of deep multi-level queries is 'children grouped by matching parent' (not document order): compared as sets",
]
REACH = [
    "insights/parsr/query/__init__.py::compile_queries",
    "insights/parsr/query/__init__.py::select",
    "insights/parsr/query/__init__.py::_flatten",
    "insights/parsr/query/__init__.py::_desugar",
    "insights/parsr/query/__init__.py::_desugar_attrs",
    "insights/parsr/query/__init__.py::_desugar_name",
    "insights/parsr/query/__init__.py::Entry.select",
    "insights/parsr/query/__init__.py::Entry.find",
    "insights/parsr/query/__init__.py::Entry.__getitem__",
    "insights/parsr/query/__init__.py::Result.select",
    "insights/parsr/query/__init__.py::Result.__getitem__",
    "insights/parsr/query/__init__.py::from_dict",
    "insights/parsr/query/boolean.py::Boolean.to_pyfunc",
    "insights/parsr/query/boolean.py::CaselessPredicate.test",
    "insights/core/__init__.py::ConfigComponent.select",
]
PLAN = {
    "quick": {"shards": 8, "cases": 2100, "timeout_s": 900, "min_evaluations": 240000,
              "min_counters": {"queries_compared": 240000, "queries_with_matches": 45000, "boolean_values_compared": 900000, "roots_queries": 30000}},
    "thorough": {"shards": 16, "cases": 30000, "timeout_s": 3300, "min_evaluations": 3000000,
                 "min_counters": {"queries_compared": 3000000}},
}
NAMES = ["a", "b", "ab", "A", "c", "dir", "Dir", None, "abc"]
ATTRS = ["a", "b", "ab", "x", 1, 2, 80, "Ab", "/var/www", "ABC", 0, "80"]
LEAVES = ["eq", "lt", "le", "gt", "ge", "contains", "startswith", "endswith", "isin", "matches", "ieq", "icontains", "istartswith", "iendswith"]


def directed(tier):
    return [{"tree": [["a", [80, "abc"], []], [None, ["x"], [["b", [1], []]]]],
             "queries": [{"levels": [["tuple", "a", [["pred", ["not", ["leaf", "ieq", "abc"]]]]]], "deep": False, "roots": False, "via": "select"},
                         {"levels": [["pred", ["not", ["leaf", "ieq", "a"]]]], "deep": True, "roots": False, "via": "find"}],
             "from_dict": False}]


def gen_tree(rng, depth):
    kids = [gen_tree(rng, depth - 1) for _ in range(rng.randint(0, 4))] if depth > 0 else []
    return [rng.choice(NAMES), [rng.choice(ATTRS) for _ in range(rng.randint(0, 3))], kids]


def gen_pred(rng, depth, for_name):
    if depth == 0 or rng.random() < 0.4:
        k = rng.choice(LEAVES)
        if k in ("lt", "le", "gt", "ge"):
            v = rng.choice([1, 2, 50, "b"]) if not for_name else rng.choice(["a", "b", "c", 1])
        elif k == "isin":
            v = rng.sample(ATTRS, 2)
        elif k == "matches":
            v = rng.choice(["^a", "b$", "[Aa]", "/var", "^$"])
        else:
            v = rng.choice(["a", "b", "ab", "A", "AB", "/var", "", "x"])
        return ["leaf", k, v]
    k = rng.choice(["and", "or", "not"])
    if k == "not":
        return ["not", gen_pred(rng, depth - 1, for_name)]
    return [k, gen_pred(rng, depth - 1, for_name), gen_pred(rng, depth - 1, for_name)]


def gen_attr_q(rng):
    r = rng.random()
    if r < 0.4:
        return ["lit", rng.choice(ATTRS)]
    if r < 0.8:
        return ["pred", gen_pred(rng, 2, False)]
    return ["call", rng.choice(["is_int", "raises", "len_gt_1", "truthy"])]


def gen_level(rng):
    k = rng.choice(["name", "name", "None", "tuple", "tuple2", "pred", "predtuple", "call", "entryq", "entryq_combo", "tuple_entryq"])
    if k == "name":
        return ["name", rng.choice(NAMES[:7])]
    if k == "None":
        return ["None"]
    if k == "tuple":
        return ["tuple", rng.choice(NAMES), [gen_attr_q(rng)]]
    if k == "tuple2":
        return ["tuple", rng.choice(NAMES), [gen_attr_q(rng), gen_attr_q(rng)]]
    if k == "pred":
        return ["pred", gen_pred(rng, 3, True)]
    if k == "predtuple":
        return ["tuple_namepred", gen_pred(rng, 2, True), [gen_attr_q(rng)]]
    if k == "call":
        return ["call", rng.choice(["raises", "len_gt_1", "truthy", "is_none"])]
    if k == "entryq":
        return ["entryq", rng.choice(["any_", "all_"]), gen_attr_q(rng)]
    if k == "entryq_combo":
        return ["entryq_combo", rng.choice(["and", "or", "not"]), [rng.choice(["any_", "all_"]), gen_attr_q(rng)], [rng.choice(["any_", "all_"]), gen_attr_q(rng)]]
    return ["tuple_entryq", rng.choice(NAMES), rng.choice(["any_", "all_"]), gen_attr_q(rng)]


def gen_case(rng, tier, idx):
    tree = [gen_tree(rng, rng.randint(1, 3)) for _ in range(rng.randint(1, 4))]
    queries = []
    for _ in range(20):
        levels = [gen_level(rng) for _ in range(rng.choice([1, 1, 2, 2, 3]))]
        queries.append({"levels": levels, "deep": rng.random() < 0.5, "roots": rng.random() < 0.3,
                        "via": rng.choice(["select", "select", "find", "getitem", "result_select", "result_getitem", "component", "result_two_docs"])})
    case = {"tree": tree, "queries": queries, "from_dict": rng.random() < 0.25}
    if rng.random() < 0.4:
        # predicates built up from shared bases: base = a & b (or a | b) is combined with further leaves in several queries
        case["share_predicates"] = True
        for for_name in (True, False):
            op = rng.choice(["and", "or"])
            base = [op, gen_pred(rng, 0, for_name), gen_pred(rng, 0, for_name)]
            for q in queries:
                for lv in q["levels"]:
                    if for_name and lv[0] == "pred" and rng.random() < 0.7:
                        lv[1] = [op, base, gen_pred(rng, 0, True)]
                    if for_name and lv[0] == "tuple_namepred" and rng.random() < 0.7:
                        lv[1] = [op, base, gen_pred(rng, 0, True)]
                    if not for_name and lv[0] == "tuple":
                        for aq in lv[2]:
                            if aq[0] == "pred" and rng.random() < 0.7:
                                aq[1] = [op, base, gen_pred(rng, 0, False)]
    return case


# ---- reference semantics -------------------------------------------------------
class Raised(Exception):
    pass


def leaf_fn(k, v):
    low = (lambda x: x.lower() if isinstance(x, str) else x)
    vl = v.lower() if isinstance(v, str) else v
    table = {
        "eq": lambda x: x == v, "lt": lambda x: x < v, "le": lambda x: x <= v, "gt": lambda x: x > v, "ge": lambda x: x >= v,
        "contains": lambda x: operator.contains(x, v), "startswith": lambda x: str.startswith(x, v), "endswith": lambda x: str.endswith(x, v),
        "isin": lambda x: x in set(v), "matches": lambda x: re.search(v, x),
        "ieq": lambda x: low(x) == vl, "icontains": lambda x: operator.contains(low(x), vl),
        "istartswith": lambda x: str.startswith(low(x), vl), "iendswith": lambda x: str.endswith(low(x), vl),
    }
    return table[k]


def ev(p, x):
    """strict evaluation with python's short-circuit order; Raised if a leaf that is reached raises"""
    k = p[0]
    if k == "not":
        return not ev(p[1], x)
    if k == "and":
        return ev(p[1], x) and ev(p[2], x)
    if k == "or":
        return ev(p[1], x) or ev(p[2], x)
    try:
        return bool(leaf_fn(p[1], p[2])(x))
    except Exception:
        raise Raised()


def evq(p, x):
    try:
        return ev(p, x)
    except Raised:
        return False


CALLS = {
    "is_int": lambda v: isinstance(v, int),
    "raises": lambda v: 1 / 0,
    "len_gt_1": lambda v: len(v) > 1,
    "truthy": lambda v: bool(v),
    "is_none": lambda v: v is None,
}


def call_ref(name, v):
    try:
        return bool(CALLS[name](v))
    except Exception:
        return False


def attr_ref(aq, v):
    if aq[0] == "lit":
        return v == aq[1]
    if aq[0] == "pred":
        return evq(aq[1], v)
    return call_ref(aq[1], v)


def entryq_ref(kind, aq, node):
    attrs = node[1]
    if kind == "any_":
        return any(attr_ref(aq, a) for a in attrs)
    return all(attr_ref(aq, a) for a in attrs)


def level_ref(lv, node):
    """node: (name, attrs, ...)"""
    k = lv[0]
    name, attrs = node[0], node[1]
    if k == "name":
        return name == lv[1]
    if k == "None":
        return True
    if k == "tuple":
        return (lv[1] is None or name == lv[1]) and any(any(attr_ref(aq, a) for aq in lv[2]) for a in attrs)
    if k == "pred":
        return evq(lv[1], name)
    if k == "tuple_namepred":
        return evq(lv[1], name) and any(any(attr_ref(aq, a) for aq in lv[2]) for a in attrs)
    if k == "call":
        return call_ref(lv[1], name)
    if k == "entryq":
        return entryq_ref(lv[1], lv[2], node)
    if k == "entryq_combo":
        a = entryq_ref(lv[2][0], lv[2][1], node)
        if lv[1] == "not":
            return not a
        b = entryq_ref(lv[3][0], lv[3][1], node)
        return (a and b) if lv[1] == "and" else (a or b)
    if k == "tuple_entryq":
        return (lv[1] is None or name == lv[1]) and entryq_ref(lv[2], lv[3], node)
    raise ValueError(k)


# ---- real query objects -----------------------------------------------------------
_SHARED = [None]         # per case: {json of a sub-expression: predicate object}, or None = build everything afresh


def real_pred(p):
    """with sharing on, equal sub-expressions of all queries of a case are ONE predicate object that is combined again
    and again with & | ~ (what `base = a & b; q1 = base & c; q2 = base & d` does in user code)"""
    import json
    from insights.parsr import query as Q
    cache = _SHARED[0]
    key = json.dumps(p) if cache is not None else None
    if key is not None and key in cache:
        return cache[key]
    k = p[0]
    if k == "leaf":
        r = getattr(Q, p[1])(p[2])
    elif k == "not":
        r = ~real_pred(p[1])
    elif k == "and":
        r = real_pred(p[1]) & real_pred(p[2])
    else:
        r = real_pred(p[1]) | real_pred(p[2])
    if key is not None:
        cache[key] = r
    return r


def real_attr(aq):
    if aq[0] == "lit":
        return aq[1]
    if aq[0] == "pred":
        return real_pred(aq[1])
    return CALLS[aq[1]]


def real_entryq(kind, aq):
    from insights.parsr import query as Q
    return (Q.any_ if kind == "any_" else Q.all_)(real_attr(aq))


def real_level(lv):
    k = lv[0]
    if k == "name":
        return lv[1]
    if k == "None":
        return None
    if k == "tuple":
        return tuple([lv[1]] + [real_attr(a) for a in lv[2]])
    if k == "pred":
        return real_pred(lv[1])
    if k == "tuple_namepred":
        return tuple([real_pred(lv[1])] + [real_attr(a) for a in lv[2]])
    if k == "call":
        return CALLS[lv[1]]
    if k == "entryq":
        return real_entryq(lv[1], lv[2])
    if k == "entryq_combo":
        a = real_entryq(*lv[2])
        if lv[1] == "not":
            return ~a
        b = real_entryq(*lv[3])
        return (a & b) if lv[1] == "and" else (a | b)
    if k == "tuple_entryq":
        return (lv[1], real_entryq(lv[2], lv[3]))
    raise ValueError(k)


def collect_preds(lv, out):
    def from_attr(aq):
        if aq[0] == "pred":
            out.append(aq[1])
    k = lv[0]
    if k in ("pred", "tuple_namepred"):
        out.append(lv[1])
    if k in ("tuple", "tuple_namepred"):
        for a in lv[2]:
            from_attr(a)
    if k == "entryq":
        from_attr(lv[2])
    if k == "entryq_combo":
        from_attr(lv[2][1])
        from_attr(lv[3][1])
    if k == "tuple_entryq":
        from_attr(lv[3])


# ---- the check --------------------------------------------------------------------
def build_tree(spec_nodes):
    """returns (list of real Entry, list of ref nodes (name, attrs, children, real))"""
    from insights.parsr.query import Entry
    real, refs = [], []
    for name, attrs, kids in spec_nodes:
        rk, fk = build_tree(kids)
        e = Entry(name=name, attrs=tuple(attrs), children=rk)
        real.append(e)
        refs.append((name, tuple(attrs), fk, e))
    return real, refs


def to_dict_tree(spec_nodes):
    """a dict that from_dict turns into a tree; returns (dict, expected spec after conversion) or None if not expressible"""
    d = {}
    for name, attrs, kids in spec_nodes:
        if not isinstance(name, str) or name in d:
            return None
        if kids:
            sub = to_dict_tree(kids)
            if sub is None:
                return None
            d[name] = sub
        elif len(attrs) == 1:
            d[name] = attrs[0]
        elif len(attrs) > 1:
            d[name] = list(attrs)
        else:
            d[name] = []
    return d


def ref_from_real(entries):
    return [(e._name, tuple(e.attrs), ref_from_real(e.children), e) for e in entries]


def preorder(nodes):
    out = []
    for n in nodes:
        out.append(n)
        out.extend(preorder(n[2]))
    return out


def run_case(spec, ctx):
    if "query" in spec and "queries" not in spec:
        # a replay file holds (tree, query) - with shared predicate objects also the queries that were built before it
        spec = {"tree": spec["tree"], "queries": list(spec.get("queries_before") or []) + [spec["query"]], "from_dict": spec.get("from_dict", False),
                "share_predicates": spec.get("share_predicates", False)}
    from insights.core import ConfigComponent
    from insights.parsr import query as Q
    from insights.parsr.query import Entry, Result
    top = None
    if spec["from_dict"]:
        d = to_dict_tree(spec["tree"])
        if d is not None:
            top = Q.from_dict(d)
            refs = ref_from_real(top.children)
            ctx.count("trees_through_from_dict")
    if top is None:
        real, refs = build_tree(spec["tree"])
        top = Entry(children=real)
    allnodes = preorder(refs)
    values = set()
    for n in allnodes:
        values.add(n[0])
        values.update(n[1])

    class Comp(ConfigComponent):
        def __init__(self, doc):
            self.doc = doc
    comp = Comp(top)
    any_nt = False
    _SHARED[0] = {} if spec.get("share_predicates") else None
    if _SHARED[0] is not None:
        ctx.count("cases_with_shared_predicate_objects")
    for q in spec["queries"]:
        levels = q["levels"]
        via = q["via"]
        deep, roots = q["deep"], q["roots"]
        rq = [real_level(lv) for lv in levels]
        start = refs
        try:
            if via == "select":
                got = top.select(*rq, deep=deep, roots=roots).children
            elif via == "component":
                got = comp.select(*rq, deep=deep, roots=roots).children
            elif via == "find":
                deep = True
                got = (top if len(levels) % 2 else comp).find(*rq, roots=roots).children
            elif via == "getitem":
                levels, rq = levels[:1], rq[:1]
                deep, roots = False, False
                got = (top[rq[0]] if levels[0][0] != "tuple" or True else None).children
            elif via == "result_two_docs":
                # a Result whose children come from two documents, interleaved (what a combiner over several files holds)
                real2, refs2 = build_tree(spec["tree"])
                top2 = Entry(children=real2)
                inter_real, start = [], []
                for x1, x2 in zip(refs, refs2):
                    inter_real.extend([x1[3], x2[3]])
                    start.extend(list(x1[2]) + list(x2[2]))       # a Result is queried below its children
                res = Result(children=inter_real)
                got = res.select(*rq, deep=deep, roots=roots).children
                ctx.count("queries_over_two_interleaved_documents")
            elif via == "result_select":
                res = Result(children=list(top.children))
                start = [c for n in refs for c in n[2]]
                got = res.select(*rq, deep=deep, roots=roots).children
            else:
                res = Result(children=list(top.children))
                start = [c for n in refs for c in n[2]]
                levels, rq = levels[:1], rq[:1]
                deep, roots = False, False
                got = res[rq[0]].children
        except Exception as ex:
            ctx.violation("query-raised", {"query": q, "exc": repr(ex)[:200]})
            continue
        # naive matcher
        cur = preorder(start) if deep else list(start)
        for i, lv in enumerate(levels):
            res_ = [n for n in cur if level_ref(lv, n)]
            if i < len(levels) - 1 and res_:
                cur = [c for n in res_ for c in n[2]]
            else:
                cur = res_
                break
        exp = [n[3] for n in cur]
        if roots:
            out = []
            for e in exp:
                r = e
                while r.parent is not None:
                    r = r.parent
                if all(r is not o for o in out):
                    out.append(r)
            exp = out
            ctx.count("roots_queries")
        ctx.count("queries_compared")
        ctx.seen("entry_points", via)
        cands = len(preorder(start) if deep else start)
        if exp:
            ctx.count("queries_with_matches")
        nt = len(allnodes) >= 4 and 0 < len(cur) < max(1, cands)
        any_nt = any_nt or nt
        case = {"tree": spec["tree"], "query": q, "from_dict": spec.get("from_dict", False), "share_predicates": spec.get("share_predicates", False),
                "queries_before": spec["queries"][:spec["queries"].index(q)] if spec.get("share_predicates") else []}
        ctx.note_case(case, nt)
        gi, ei = [id(x) for x in got], [id(x) for x in exp]
        if gi != ei:
            w = {"query": q, "got": [(_n(x)) for x in got][:8], "expected": [(_n(x)) for x in exp][:8], "tree": spec["tree"] if len(allnodes) < 12 else "(%d nodes)" % len(allnodes)}
            if sorted(gi) == sorted(ei) and len(set(gi)) == len(gi):
                if deep and len(levels) > 1 and not roots:
                    ctx.count("deep_multilevel_order_differences")
                else:
                    ctx.violation("results-not-in-document-order", w, spec=case)
            elif len(set(gi)) != len(gi) and set(gi) == set(ei):
                if deep and len(levels) > 1:
                    ctx.count("deep_multilevel_duplicates")
                else:
                    ctx.violation("results-contain-duplicates", w, spec=case)
            elif set(ei) - set(gi) and not set(gi) - set(ei):
                ctx.violation("matching-nodes-missing-from-result", w, spec=case)
            elif set(gi) - set(ei) and not set(ei) - set(gi):
                ctx.violation("non-matching-nodes-in-result", w, spec=case)
            else:
                ctx.violation("result-differs-from-naive-matcher", w, spec=case)
        # interpreted vs compiled, on every value of the tree
        preds = []
        for lv in levels:
            collect_preds(lv, preds)
        for p in preds:
            b = real_pred(p)
            f = b.to_pyfunc()
            for v in values:
                ctx.count("boolean_values_compared")
                try:
                    strict = ev(p, v)
                    raised = False
                except Raised:
                    raised = True
                interp = bool(b.test(v))
                comp_ = bool(f(v))
                if raised:
                    ctx.count("boolean_evaluations_with_raising_leaf")
                    if comp_:
                        ctx.violation("raising-predicate-counts-as-matching", {"predicate": p, "value": v}, spec=case)
                else:
                    if interp != comp_:
                        ctx.violation("interpreted-and-compiled-predicate-disagree", {"predicate": p, "value": v, "interpreted": interp, "compiled": comp_}, spec=case)
                    elif interp != strict:
                        ctx.violation("predicate-truth-value-wrong", {"predicate": p, "value": v, "got": interp, "expected": strict}, spec=case)
    ctx.evaluations -= 1
    return False


def _n(e):
    return [e._name, list(e.attrs)]
