"""C08 - nothing configured or recognised as sensitive survives cleaning."""
import os
import re
import shutil
import tempfile

from vpmon import gen_text as T

ID = "C08"
LEVEL = "exploration"
RULE = ("slot lines (unique tag + non-word delimiter + 1-5 planted tokens: IPv4 incl. loopback / substitute-range / "
        "prefixes of each other / :port /mask suffixes, MAC in both notations and cases, system FQDN, short name, other "
        "hosts of its domain, configured keywords, password keys with every documented separator form, exclusion-pattern "
        "hits, filler) cleaned under random configurations (plain / regex+POSIX pattern lists, keyword lists, 5 host "
        "names, obfuscate / obfuscate_hostname / obfuscate_mac, per-spec no_obfuscate subsets, no_redact) through "
        "Cleaner.clean_content, Cleaner.clean_file and the provider path (_clean_content / write with spec-level "
        "exemptions), also on the width-preserving path of the netstat_-neopa spec (column-aligned lines, an address twice a "
        "line), lines with up to four credentials, keywords inside longer words; independent recognisers check the output by tag; one evaluation = one (content, configuration, "
        "entry point); non-trivial = >= 2 sensitive kinds planted and at least one survivor line; distinct by case hash")
ASSUMPTIONS = [
    "tokens are delimited by non-word characters on both sides; MAC neighbours are additionally not ':'/'-'",
    "host names are planted in the letter case of the configured FQDN; octets have no leading zeros and the first octet is 1-255",
    "keywords and host names are not sub-strings of any substitute the cleaner can issue (keywordN, hostN.example.com, hex digits, ********)",
    "a password slot is followed by a delimiter outside the documented secret character class; only lower-case 'password' keys; one password key per line",
    "exempted aspects (no_obfuscate / no_redact) are not checked for that spec",
    "IPv6 obfuscation is off (the statement does not mention it)",
    "residue check (a planted token is replaced as a whole) skips lines holding an IPv4 original that is textually inside an issued substitute (the C09 known finding)",
]
REACH = [
    "insights/cleaner/__init__.py::Cleaner.clean_content",
    "insights/cleaner/__init__.py::Cleaner.clean_file",
    "insights/cleaner/ip.py::IPv4.parse_line",
    "insights/cleaner/hostname.py::Hostname.parse_line",
    "insights/cleaner/mac.py::Mac.parse_line",
    "insights/cleaner/keyword.py::Keyword.parse_line",
    "insights/cleaner/password.py::Password.parse_line",
    "insights/cleaner/pattern.py::Pattern.parse_line",
    "insights/util/posix_regex.py::replace_posix",
    "insights/core/spec_factory.py::ContentProvider._clean_content",
]
PLAN = {
    "quick": {"shards": 8, "cases": 8000, "timeout_s": 900, "min_evaluations": 48000,
              "min_counters": {"lines_cleaned": 160000, "ip_tokens_checked": 32000, "mac_tokens_checked": 10000, "host_tokens_checked": 24000,
                               "keyword_tokens_checked": 8000, "password_secrets_checked": 12000, "pattern_lines_checked": 8000,
                               "survivor_lines": 60000}},
    "thorough": {"shards": 16, "cases": 45000, "timeout_s": 3300, "min_evaluations": 150000,
                 "min_counters": {"lines_cleaned": 1000000}},
}
OBF_NAMES = ["hostname", "ip", "keyword", "mac", "password"]


def gen_case(rng, tier, idx):
    if idx % 200 == 199:
        # the parallel run strategy: several specs with different exemptions cleaned at once through ONE Cleaner
        from vpmon.props import c10
        return c10.gen_concurrent(rng)
    cfg = T.gen_config(rng)
    n = rng.randint(1, 14)
    base = "~~%d" % rng.randint(0, 10 ** 6)
    lines = [T.gen_line(rng, cfg, "%s~%d~~" % (base, i), host_suffix=True) if rng.random() > 0.08 else
             # a command line carrying several credentials
             T.gen_line(rng, cfg, "%s~%d~~" % (base, i), kinds=["pw", "pw", "pw", "fill", "ip"], nslots=rng.randint(3, 5)) for i in range(n)]
    entry = rng.choice(["content", "content", "file", "provider", "provider_file"])
    width = rng.random() < 0.15
    if width:
        # the width-preserving path (the netstat_-neopa spec): column-aligned lines, the same address several times a line
        pool = rng.sample(["1.2.3.4", "192.168.100.200", "10.9.8.7", "172.16.254.123", "8.8.8.8", "100.100.100.100", "10.230.230.3"], rng.randint(1, 3))
        pad = " " * rng.choice([13, 16, 20])
        lines = []
        for i in range(n):
            ls = T.gen_line(rng, cfg, "%s~%d~~" % (base, i), kinds=["ip", "ip", "ip", "fill"], ip_pool=pool, nslots=rng.randint(2, 5))
            seen_ips = {}
            for sl in ls["slots"]:
                if sl[0] == "ip" and sl[2][len(sl[1]):] in (".", ",", "/8", "/24"):
                    sl[2] = sl[1] + rng.choice(["", ":22", ":65535"])
                if sl[0] == "ip":
                    # as in netstat output an address occurs at most twice a line (local and foreign); with more
                    # occurrences the re-padding eats into its own substitutes and raises (nothing is emitted: no leak)
                    seen_ips[sl[1]] = seen_ips.get(sl[1], 0) + 1
                    if seen_ips[sl[1]] > 2:
                        sl[0], sl[1], sl[2] = "fill", "LISTEN", "LISTEN"
            ls["d"] = pad
            if entry in ("content", "provider") and rng.random() < 0.15 and ls["slots"][-1][0] == "ip" and ls["slots"][-1][2] == ls["slots"][-1][1]:
                # the address is the very last thing on the line: the re-padding then fails and the whole spec is refused
                # (an exception, nothing is emitted) - it must never come out with the address still in it
                ls["no_tail"] = True
            lines.append(ls)
    no_obf = rng.sample(OBF_NAMES, rng.choice([0, 0, 0, 1, 2])) if rng.random() < 0.5 else []
    return {"cfg": cfg, "lines": lines, "entry": entry, "no_obfuscate": no_obf, "no_redact": rng.random() < 0.15,
            "blank_lines": rng.random() < 0.2, "width": width, "graph_ds": rng.random() < 0.5}


def nontrivial(spec):
    if spec.get("kind") == "concurrent":
        return True
    kinds = set(s[0] for ls in spec["lines"] for s in ls["slots"]) - {"fill"}
    return len(kinds) >= 2


def clean_via(spec, cleaner, lines, ctx):
    """returns the cleaned lines through the chosen entry point"""
    entry = spec["entry"]
    no_obf, no_red = spec["no_obfuscate"], spec["no_redact"]
    width = bool(spec.get("width"))
    relname = "insights_commands/netstat_-neopa" if width else "etc/f.txt"
    if entry == "content":
        if width:
            ctx.count("width_preserving_runs")
            try:
                return cleaner.clean_content(list(lines), no_obfuscate=list(no_obf), no_redact=no_red, width=True)
            except Exception as ex:
                if "SubIPError" in repr(ex) and any(ls.get("no_tail") for ls in spec["lines"]):
                    ctx.count("specs_refused_by_the_width_preserving_path")
                    return []
                raise
        return cleaner.clean_content(list(lines), no_obfuscate=list(no_obf), no_redact=no_red)
    base = tempfile.mkdtemp(prefix="vpc08_")
    try:
        if width:
            ctx.count("width_preserving_runs")
        if entry == "file":
            p = os.path.join(base, "netstat_-neopa" if width else "f.txt")
            with open(p, "w") as f:
                f.write("".join(l + "\n" for l in lines))
            cleaner.clean_file(p, no_obfuscate=list(no_obf), no_redact=no_red)
            if not os.path.exists(p):
                return []
            with open(p) as f:
                return f.read().split("\n")
        from insights.core.context import HostContext
        from insights.core.spec_factory import DatasourceProvider, RegistryPoint, TextFileProvider

        class DS(object):
            no_obfuscate = list(no_obf)
            no_redact = no_red
        hc = HostContext(root=base)
        ds_obj = DS()
        if spec.get("graph_ds") and not no_obf and not no_red:
            # the provider belongs to a real datasource of a real spec set: the implementation of a spec without any
            # exemption, which ANOTHER spec - one that is exempted from everything - is built on
            ds_obj = graph_ds()
            ctx.count("providers_of_a_real_spec_that_an_exempted_spec_is_built_on")
        if entry == "provider":
            prov = DatasourceProvider(list(lines), relname if width else "rel/path.txt", ds=ds_obj, ctx=hc, cleaner=cleaner)
        else:
            os.makedirs(os.path.join(base, os.path.dirname(relname)))
            with open(os.path.join(base, relname), "w") as f:
                f.write("".join(l + "\n" for l in lines))
            prov = TextFileProvider(relname, root=base, ctx=hc, cleaner=cleaner)
            prov.ds = ds_obj
        dst = os.path.join(base, "out", "x.txt")
        try:
            prov.write(dst)
        except Exception as ex:
            from insights.core.exceptions import ContentException
            if isinstance(ex, ContentException):
                return []
            if width and "SubIPError" in repr(ex) and any(ls.get("no_tail") for ls in spec["lines"]):
                ctx.count("specs_refused_by_the_width_preserving_path")
                return []
            raise
        with open(dst) as f:
            return f.read().split("\n")
    finally:
        shutil.rmtree(base, ignore_errors=True)


_GRAPH = []


def graph_ds():
    if not _GRAPH:
        import sys
        import types
        from insights.core.context import HostContext
        from insights.core.plugins import datasource
        from insights.core.spec_factory import RegistryPoint, SpecSet
        modname = "vpmon_c08.specs"
        sys.modules[modname] = types.ModuleType(modname)
        S = type("S08", (SpecSet,), {"__module__": modname, "app_conf": RegistryPoint(),
                                     "app_id": RegistryPoint(no_redact=True, no_obfuscate=["hostname", "ip", "ipv6", "keyword", "mac", "password"])})

        def app_conf(broker):
            return None

        def app_id(broker):
            return None
        for f in (app_conf, app_id):
            f.__module__ = modname
            f.__qualname__ = f.__name__
        d1 = datasource(HostContext)(app_conf)
        d2 = datasource(d1, HostContext)(app_id)
        I = type("I08", (S,), {"__module__": modname, "app_conf": d1, "app_id": d2})
        assert list(I.app_conf.no_obfuscate) == [] and not I.app_conf.no_redact
        _GRAPH.append(I.app_conf)
    return _GRAPH[0]


def run_case(spec, ctx):
    if spec.get("kind") == "concurrent":
        from vpmon.props import c10
        # what a spec keeps secret must not depend on which other spec another thread is cleaning at the same moment
        return c10.run_concurrent(spec, ctx, mechanism="sensitive-content-handled-differently-when-threads-share-the-cleaner")
    cfg = spec["cfg"]
    cleaner = T.make_cleaner(cfg)
    specs = spec["lines"]
    lines = []
    for ls in specs:
        lines.append(T.render(ls))
        if spec["blank_lines"]:
            lines.append("")
    out = clean_via(spec, cleaner, lines, ctx)
    ctx.count("lines_cleaned", len(specs))
    ctx.count("entry_" + spec["entry"])
    no_obf = set(spec["no_obfuscate"])
    check_kw = bool(cfg["keywords"]) and "keyword" not in no_obf
    check_pw = "password" not in no_obf
    check_ip = cfg["obfuscate"] and "ip" not in no_obf
    check_hn = cfg["obfuscate"] and cfg["obfuscate_hostname"] and "hostname" not in no_obf
    check_mac = cfg["obfuscate"] and cfg["obfuscate_mac"] and "mac" not in no_obf
    check_pat = bool(cfg.get("patterns")) and not spec["no_redact"]
    outby = {}
    for o in out:
        if o == "":
            continue
        t = T.tag_of(o)
        if t is None:
            ctx.count("untagged_output_lines")
            continue
        outby.setdefault(t, []).append(o)
    subs_ip = set(x["obfuscated"] for x in cleaner.obfuscate["ip"].mapping()) if cleaner.obfuscate.get("ip") else set()
    subs_hn = set(x["obfuscated"] for x in cleaner.obfuscate["hostname"].mapping()) if cleaner.obfuscate.get("hostname") else set()
    subs_mac = set(x["obfuscated"] for x in cleaner.obfuscate["mac"].mapping()) if cleaner.obfuscate.get("mac") else set()
    fqdn = cfg["fqdn"]
    short = fqdn.split(".")[0]
    domain = T.domain_of(fqdn)
    for ls, line in zip(specs, [l for l in lines if l != ""] if spec["blank_lines"] else lines):
        kinds = [s[0] for s in ls["slots"]]
        outs = outby.get(ls["tag"], [])
        if "drop" in kinds and check_pat:
            ctx.count("pattern_lines_checked")
            if outs:
                ctx.violation("line-with-exclusion-pattern-survived", {"line": line, "output": outs[0], "patterns": cfg["patterns"]})
            continue
        if not outs:
            ctx.count("lines_without_descendant")
            continue
        ctx.count("survivor_lines")
        for o in outs:
            if check_kw:
                for kw in cfg["keywords"]:
                    if kw in line:
                        ctx.count("keyword_tokens_checked")
                    if kw in o:
                        ctx.violation("keyword-survived", {"keyword": kw, "line": line, "output": o, "config": _cfgview(spec)})
            stripped_hn = o
            for s in sorted(subs_hn, key=len, reverse=True):
                stripped_hn = stripped_hn.replace(s, "\x00")
            for k, v, shown in ls["slots"]:
                if k == "pw" and check_pw:
                    ctx.count("password_secrets_checked")
                    if v in o:
                        ctx.violation("password-secret-survived", {"secret": v, "slot": shown, "line": line, "output": o})
                elif k == "ip" and check_ip and v != "127.0.0.1":
                    ctx.count("ip_tokens_checked")
                    if spec.get("width"):
                        ctx.count("ip_tokens_checked_on_width_preserving_path")
                    if v in subs_ip:
                        ctx.count("ip_equal_to_an_issued_substitute")
                        continue
                    if re.search(r"(?<![\w.])" + re.escape(v) + r"(?![\w]|\.\d)", o):
                        ctx.violation("ipv4-address-survived", {"address": v, "slot": shown, "line": line, "output": o, "issued": sorted(subs_ip)[:8]})
                elif k == "mac" and check_mac and v.lower() not in ("00:00:00:00:00:00", "ff:ff:ff:ff:ff:ff"):
                    ctx.count("mac_tokens_checked")
                    if v in subs_mac:
                        continue
                    if re.search(r"(?<![\w:-])" + re.escape(v) + r"(?![\w:-])", o):
                        ctx.violation("mac-address-survived", {"mac": v, "line": line, "output": o})
                elif k in ("fqdn", "short", "otherhost") and check_hn:
                    ctx.count("host_tokens_checked")
                    if v in stripped_hn:
                        ctx.violation("host-name-survived", {"kind": k, "name": v, "fqdn": fqdn, "line": line, "output": o})
    # residue check: a planted token must be replaced as a whole (its slot in the output skeleton is exactly a
    # substitute the obfuscator reports, plus the planted suffix), never only in part
    if spec["entry"] in ("content", "provider") and not spec["blank_lines"] and not spec.get("width"):
        for ls in specs:
            outs = outby.get(ls["tag"], [])
            if len(outs) != 1 or any(s[0] in ("pw", "kw", "drop") for s in ls["slots"]):
                continue
            parts = T.split_slots(ls, outs[0])
            if parts is None:
                continue
            line_ips = [s[1] for s in ls["slots"] if s[0] == "ip"]
            f9 = any(o in sub for o in line_ips for sub in subs_ip)
            for (k, v, shown), got in zip(ls["slots"], parts):
                if k == "ip" and check_ip and v != "127.0.0.1" and not f9:
                    suffix = shown[len(v):]
                    body = got[:len(got) - len(suffix)] if suffix and got.endswith(suffix) else got
                    ctx.count("slots_checked_for_residue")
                    if body not in subs_ip:
                        ctx.violation("sensitive-token-only-partly-replaced", {"kind": "ip", "original": shown, "slot_after_cleaning": got, "line": T.render(ls), "output": outs[0]})
                elif k in ("fqdn", "short", "otherhost") and check_hn:
                    ctx.count("slots_checked_for_residue")
                    suffix = shown[len(v):]
                    if suffix and got.endswith(suffix):
                        got = got[:len(got) - len(suffix)]
                    if got not in subs_hn:
                        ctx.violation("sensitive-token-only-partly-replaced", {"kind": k, "original": v, "slot_after_cleaning": got, "line": T.render(ls), "output": outs[0]})
                elif k == "mac" and check_mac and v.lower() not in ("00:00:00:00:00:00", "ff:ff:ff:ff:ff:ff") and v not in subs_mac:
                    ctx.count("slots_checked_for_residue")
                    if got not in subs_mac:
                        ctx.violation("sensitive-token-only-partly-replaced", {"kind": "mac", "original": v, "slot_after_cleaning": got, "line": T.render(ls), "output": outs[0]})
    return nontrivial(spec) and any(ls["tag"] in outby for ls in specs)


def _cfgview(spec):
    return {"cfg": spec["cfg"], "no_obfuscate": spec["no_obfuscate"], "no_redact": spec["no_redact"], "entry": spec["entry"]}
