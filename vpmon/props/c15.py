"""C15 - shared text-format helpers recover what was rendered."""
import collections
import itertools
import re
import string

ID = "C15"
LEVEL = "exploration"
RULE = ("render -> parse round trips with harness renderers: (fixed) parse_fixed_table on 1-8 columns, header names that are "
        "substrings/suffixes of their neighbours (NAME ME E), cells with inner runs of spaces, empty cells, leading junk + "
        "heading_ignore, footers + trailing_ignore, header_substitute; (delim) parse_delimited_table with whitespace and "
        "printable delimiters, max_splits, blank cells, strip on/off, duplicate headings, short rows, raw_line_key; (kv) "
        "split_kv_pairs / get_active_lines with extra separators in values, full-line and trailing comments, blanks, "
        "duplicates, use_partition, ordered, filter_string; (ini) IniConfigFile on sections/options/values over the "
        "characters the grammar admits, mixed-case option names, duplicates within and across repeated sections, DEFAULT "
        "inheritance, '#'/';' comments, blank lines, indented continuation lines, accessors sections/items/get/has_option/"
        "getboolean/getint/getfloat/in; (search) keyword_search with plain/__contains/__startswith/__endswith/"
        "__lower_value conditions, keys needing '-'/' ' normalisation, unknown keys, against a six-line filter; one "
        "evaluation = one document; non-trivial = >= 2 columns/pairs and one of: empty cell, inner spaces, substring "
        "header, duplicate key, comment; distinct by case hash")
ASSUMPTIONS = [
    "fixed tables: cells are not wider than their column, no fully empty row, header names contain no blanks",
    "delimited tables: cells do not contain the delimiter (except the last one under max_splits), first/last cell have no outer blanks when strip is off",
    "INI: section headers and comments are rendered unindented unless stated; values contain no '#', do not end in blank or backslash and are not a lone '['; an indented '[x]' line after an option is a continuation (as in configparser)",
    "keyword_search is called with a fresh parent per row list; row keys do not collide after '-'/' ' normalisation; values are strings or None",
]
REACH = [
    "insights/parsers/__init__.py::parse_fixed_table",
    "insights/parsers/__init__.py::parse_delimited_table",
    "insights/parsers/__init__.py::split_kv_pairs",
    "insights/parsers/__init__.py::get_active_lines",
    "insights/parsers/__init__.py::keyword_search",
    "insights/parsers/__init__.py::calc_offset",
    "insights/core/__init__.py::IniConfigFile.parse_content",
    "insights/core/__init__.py::IniConfigFile.get",
    "insights/core/__init__.py::IniConfigFile.items",
    "insights/core/__init__.py::IniConfigFile.getboolean",
    "insights/parsr/iniparser.py::parse_doc",
]
PLAN = {
    "quick": {"shards": 8, "cases": 20000, "timeout_s": 900, "min_evaluations": 120000,
              "min_counters": {"fixed_tables": 24000, "delimited_tables": 24000, "kv_documents": 24000, "ini_documents": 24000, "keyword_searches": 80000,
                               "cells_compared": 480000}},
    "thorough": {"shards": 16, "cases": 350000, "timeout_s": 3300, "min_evaluations": 800000,
                 "min_counters": {"fixed_tables": 150000}},
}
KNOWN_INI = "ini-indented-comment-after-option-joins-the-value"
KNOWN_INI_REPEAT = "ini-repeated-section-inherited-default-overrides-own-option"
_UID = itertools.count()
CELLW = ["a", "b", "x1", "foo", "bar baz", "a  b", "1.5", "-", "/dev/sda1", "10%", "x=y", "q:r", "UP", "two  gaps  here", "é", "[k]", "#7", "0"]
HEADERS = ["NAME", "ME", "E", "AB", "B", "STATE", "TE", "SIZE", "ZE", "Used", "sed", "Mounted", "ount", "ID", "D", "TYPE", "PE", "PID", "Col1", "l1", "X"]
KEYCH = [c for c in string.printable if c not in string.whitespace and c not in "[]=:#;"]
VALCH = [c for c in string.printable if c not in "\n\r\t\x0b\x0c#"]


def directed(tier):
    return [{"kind": "fixed", "headers": ["NAME", "ME", "E"], "widths": [6, 5, 3], "rows": [["a", "b", "c"], ["", "x y", ""], ["long1", "", "z"]],
             "junk": [], "footer": [], "subst": None, "rstrip": False},
            # known finding: indented comment directly after an option
            {"kind": "ini", "doc": [["section", "main", "[%s]"], ["option", "key", "value", " = ", []], ["indented_comment", "    # indented comment"],
                                    ["option", "other", "x", " = ", []], ["indented_comment", "  ; semi"], ["option", "third", "3", "=", []]]},
            # known finding: repeated section + default
            {"kind": "ini", "doc": [["section", "s", "[%s]"], ["option", "r", "own", " = ", []], ["section", "DEFAULT", "[%s]"], ["option", "R", "dflt", " = ", []],
                                    ["section", "s", "[%s]"], ["option", "z", "1", "=", []]]},
            # fixed: duplicate in DEFAULT, and own option vs default in another case
            {"kind": "ini", "doc": [["section", "DEFAULT", "[%s]"], ["option", "k", "first", "=", []], ["option", "k", "last", "=", []], ["option", "J", "inherited", "=", []],
                                    ["section", "a", "[%s]"], ["option", "j", "own", ":", []]]}]


def gen_case(rng, tier, idx):
    kind = ("fixed", "delim", "kv", "ini", "search")[idx % 5]
    return globals()["gen_" + kind](rng)


def gen_fixed(rng):
    n = rng.randint(1, 8)
    headers = []
    while len(headers) < n:
        h = rng.choice(HEADERS) if rng.random() < 0.8 else "".join(rng.choice("ABCDEabc_%") for _ in range(rng.randint(1, 5)))
        if headers and rng.random() < 0.35:
            prev = headers[-1]
            k = rng.randint(1, len(prev))
            h = prev[-k:] if rng.random() < 0.6 else prev[:k]     # suffix / prefix of the previous header
        if h not in headers:
            headers.append(h)
    rows = []
    for _ in range(rng.randint(0, 7)):
        row = [rng.choice(CELLW) if rng.random() > 0.25 else "" for _ in range(n)]
        if not any(row):
            row[rng.randrange(n)] = "v"
        rows.append(row)
    footer = [rng.choice(["Total: 3 rows", "Total:", "", "Total: x  y"]) for _ in range(rng.randint(1, 3))] if rng.random() < 0.3 else []
    if footer and rows and rng.random() < 0.5:
        # the footer marker inside a cell of the last data rows (not at the start of the line): still data
        for r in rows[-rng.randint(1, 2):]:
            c = rng.randrange(n)
            r[c] = rng.choice(["sub-Total:", "(Total:)", "xTotal:"]) if c == 0 else rng.choice(["Total:", "sub-Total:", "Total: 2"])
            if c != 0 and not r[0]:
                r[0] = "v"
    widths = []
    for c in range(n):
        w = max([len(headers[c])] + [len(r[c]) for r in rows]) + rng.randint(1, 3)
        widths.append(w)
    subst = None
    if rng.random() < 0.2:
        c = rng.randrange(n)
        if len(headers[c]) >= 3 and all(headers[c] not in h for i, h in enumerate(headers) if i != c):
            k = rng.randint(1, len(headers[c]) - 2)
            shown = headers[c][:k] + " " + headers[c][k + 1:]
            new = headers[c][:k] + "_" + headers[c][k + 1:]
            if not any(shown in h or h in shown.split() for i, h in enumerate(headers) if i != c) and new not in headers:
                subst = [c, shown, new]
    junk = [rng.choice(["# junk line", "Warning: something", "", "   leading text"]) for _ in range(rng.randint(0, 3))] if rng.random() < 0.4 else []
    return {"kind": "fixed", "headers": headers, "widths": widths, "rows": rows, "junk": junk, "footer": footer, "subst": subst,
            "rstrip": rng.random() < 0.5}


def gen_delim(rng):
    delim = rng.choice([None, None, "|", ",", ":", ";", "||", "=>"])
    n = rng.randint(1, 6)
    heads = []
    for i in range(n):
        h = rng.choice(["name", "state", "size", "Mount", "id", "TYPE", "x", "col%d" % i])
        if rng.random() < 0.12 and heads:
            h = rng.choice(heads)          # duplicate heading: last wins
        heads.append(h)
    strip = rng.random() < 0.7
    max_splits = rng.choice([-1, -1, n - 1]) if n > 1 else -1
    rows = []
    for _ in range(rng.randint(0, 7)):
        k = n if rng.random() < 0.8 else rng.randint(1, n)
        row = []
        for c in range(k):
            if delim is None:
                cell = rng.choice(["a", "b1", "/dev/x", "10%", "-", "x=y", "é"])
                if c == n - 1 and max_splits == n - 1 and rng.random() < 0.5:
                    cell = cell + " more words"
            else:
                cell = rng.choice(["a", "b 1", "", "x", "10%", "two  sp", "-"])
                if c == n - 1 and max_splits == n - 1 and rng.random() < 0.4:
                    cell = cell + delim + "tail"
                if delim.strip() and delim.strip() in cell and not (c == n - 1 and max_splits == n - 1):
                    cell = "z"
            row.append(cell)
        if delim is not None and rng.random() < 0.06:
            row = [""] * len(row)
        if delim is not None and not "".join(row).strip():
            # a row whose cells are all empty is still a row when a printable delimiter makes it visible (",,")
            if delim == delim.strip() and len(row) >= 2 and rng.random() < 0.7:
                pass
            else:
                row[0] = "k"
        rows.append(row)
    footer = rng.random() < 0.25
    if footer and rows and rng.random() < 0.5:
        # the footer marker inside a cell of the last data rows (not at the start of the line): still data
        for r in rows[-rng.randint(1, 2):]:
            if len(r) >= 2 and r[0].strip() and not r[0].strip().startswith("Total"):
                r[rng.randrange(1, len(r))] = rng.choice(["Total", "subTotal", "Totals"])
    pad = rng.random() < 0.5 and strip and delim is not None
    return {"kind": "delim", "delim": delim, "heads": heads, "rows": rows, "strip": strip, "max_splits": max_splits, "pad": pad,
            "junk": rng.random() < 0.25, "footer": footer, "raw_key": rng.choice([None, None, "raw"])}


def gen_kv(rng):
    sep = rng.choice(["=", "=", ":", " ", "=>", "\t"])
    cc = rng.choice(["#", "#", ";", "//"])
    pairs = []
    keys = ["key%d" % i for i in range(6)] + ["KEY1", "a.b", "x-y", "with space", "k"]
    items = []
    for _ in range(rng.randint(0, 10)):
        r = rng.random()
        if r < 0.15:
            items.append(["comment", rng.choice([cc + " full line", "   " + cc + "indented", cc, cc + " a = 1 " + cc + " b = 2"])])
        elif r < 0.25:
            items.append(["blank", rng.choice(["", "   ", "\t"])])
        elif r < 0.33:
            items.append(["nosep", rng.choice(["loneword", "flag", "keyX"])])
        else:
            k = rng.choice(keys)
            if sep == " " and " " in k:
                k = "kk"
            v = rng.choice(["v", "1", "", "a%sb" % sep, "x y  z", "val%sue%s" % (sep, sep), "/p/a/th", "é", "true"])
            if sep in k:
                k = "kz"
            trail = rng.choice(["", "", "  " + cc + " trailing comment", cc + "c", " " + cc + " note " + cc + " again", cc + cc,
                                "  " + cc + " key7 = v1 (commented out)"])
            lead = rng.choice(["", "", "  ", "\t"])
            sp = rng.choice(["", " ", "  "]) if sep.strip() else ""
            items.append(["pair", k, v, lead, sp, trail])
    return {"kind": "kv", "sep": sep, "cc": cc, "items": items, "use_partition": rng.random() < 0.4, "ordered": rng.random() < 0.5,
            "filter": rng.choice([None, None, None, "key", "1", "v"])}


def ini_key(rng):
    k = "".join(rng.choice(KEYCH) for _ in range(rng.randint(1, 6)))
    if rng.random() < 0.3:
        k = k + " " + "".join(rng.choice(KEYCH) for _ in range(rng.randint(1, 3)))
    return k


def ini_val(rng):
    r = rng.random()
    if r < 0.15:
        return rng.choice(["true", "False", "yes", "NO", "on", "off", "1", "0", "42", "-7", "1.5", "1e3"])
    v = "".join(rng.choice(VALCH) for _ in range(rng.randint(0, 12)))
    while v != v.strip().rstrip("\\"):
        v = v.strip().rstrip("\\")
    if v == "[" or v.startswith("["):
        v = "x" + v
    return v


def gen_ini(rng):
    doc = []
    if rng.random() < 0.5:
        doc.append(["comment", rng.choice(["# leading comment", "; c", "#"])])
    nsec = rng.randint(1, 4)
    names = []
    for _ in range(nsec):
        s = "".join(rng.choice(KEYCH + ["=", ":", " "]) for _ in range(rng.randint(1, 8))).strip() or "s"
        names.append(s)
    if rng.random() < 0.3:
        names.append(names[0])
    if rng.random() < 0.25:
        names.insert(rng.randint(0, len(names)), "DEFAULT")
    for s in names:
        doc.append(["section", s, rng.choice(["[%s]", "[ %s ]", "[%s]  "])])
        keys = [ini_key(rng) for _ in range(rng.randint(0, 4))]
        if keys and rng.random() < 0.4:
            keys.append(rng.choice(keys).upper() if rng.random() < 0.5 else rng.choice(keys))
        for k in keys:
            v = ini_val(rng)
            cont = []
            if v and rng.random() < 0.15:
                cont = [c for c in (ini_val(rng) for _ in range(rng.randint(1, 2))) if c and c[0] not in "#;"]
            doc.append(["option", k, v, rng.choice(["=", ":", " = ", " : ", "= "]), cont])
            r = rng.random()
            if r < 0.25:
                doc.append(["comment", rng.choice(["# c = 1", "; x: 2"])])
            elif r < 0.35:
                doc.append(["blank", rng.choice(["", "   "])])
            elif r < 0.40:
                doc.append(["indented_comment", rng.choice(["   # c = 1", "  ; x: 2"])])
            elif r < 0.50:
                # a key without separator and value (my.cnf style): not an option unless the parser is told to allow it
                doc.append(["barekey", rng.choice(["skip-grant-tables", "barekey", "no_value_here", k.strip() or "bk"]).replace("=", "").replace(":", "").replace(" ", "_").lstrip("[#;") or "bk"])
    return {"kind": "ini", "doc": doc}


def gen_search(rng):
    keys = rng.sample(["name", "state", "mount-point", "fs type", "size", "Use%", "id", "a_b"], rng.randint(1, 5))
    vals = ["up", "down", "UP", "/dev/sda", "/dev/sdb1", "", "10", "xfs", "ext4", None, "Down"]
    rows = [dict((k, rng.choice(vals)) for k in keys if rng.random() < 0.93) for _ in range(rng.randint(0, 8))]
    rows = [r for r in rows if r]
    queries = []
    for _ in range(rng.randint(2, 6)):
        conds = {}
        for _ in range(rng.randint(0, 3)):
            k = rng.choice(keys + ["nokey"]) if rng.random() < 0.9 else "zzz"
            sk = k.replace(" ", "_").replace("-", "_")
            m = rng.choice(["", "", "__contains", "__startswith", "__endswith", "__lower_value", "__bogus"])
            v = rng.choice([x for x in vals if x is not None] + ["dev", "s", "U", "/"])
            conds[sk + m] = v
        queries.append(conds)
    return {"kind": "search", "rows": rows, "queries": queries, "row_keys_change": rng.random() < 0.5}


def nontrivial(spec):
    k = spec["kind"]
    if k == "fixed":
        hs = spec["headers"]
        sub = any(hs[i] in hs[j] for i in range(len(hs)) for j in range(len(hs)) if i != j)
        return len(hs) >= 2 and bool(spec["rows"]) and (sub or any("" in r or any("  " in c for c in r) for r in spec["rows"]))
    if k == "delim":
        return len(spec["heads"]) >= 2 and bool(spec["rows"])
    if k == "kv":
        return sum(1 for i in spec["items"] if i[0] == "pair") >= 2
    if k == "ini":
        return sum(1 for i in spec["doc"] if i[0] == "option") >= 2
    return len(spec["rows"]) >= 2


# --------------------------------------------------------------------------
def run_fixed(spec, ctx):
    from insights.parsers import parse_fixed_table
    hs, ws, rows = list(spec["headers"]), spec["widths"], spec["rows"]
    n = len(hs)
    shown = list(hs)
    subst = spec["subst"]
    kw = {}
    if subst:
        shown[subst[0]] = subst[1]
        hs[subst[0]] = subst[2]
        kw["header_substitute"] = [(subst[1], subst[2])]

    def fmt(cells):
        line = "".join(c.ljust(ws[i]) if i < n - 1 else c for i, c in enumerate(cells))
        return line.rstrip() if spec["rstrip"] else line
    lines = []
    if spec["junk"]:
        lines.extend(spec["junk"])
        kw["heading_ignore"] = [shown[0] if not subst or subst[0] != 0 else subst[1].split()[0]]
        if any(j.strip().startswith(kw["heading_ignore"][0]) for j in spec["junk"]):
            return None
    if subst and len(re.findall("(?=%s)" % re.escape(subst[1]), fmt(shown))) != 1:      # overlapping occurrences count too
        return None          # the text to substitute also occurs across a column boundary of this header line
    lines.append(fmt(shown))
    lines.extend(fmt(r) for r in rows)
    if spec["footer"]:
        lines.extend(spec["footer"])
        kw["trailing_ignore"] = ["Total:"]
    try:
        got = parse_fixed_table(lines, **kw)
    except Exception as ex:
        ctx.violation("fixed-table-raised", {"lines": lines, "options": kw, "exc": repr(ex)[:200]})
        return
    exp = [dict(zip(hs, r)) for r in rows]
    ctx.count("fixed_tables")
    ctx.count("cells_compared", n * len(rows))
    if got != exp:
        ctx.violation("fixed-table-cells-differ", {"lines": lines, "options": kw, "got": got[:4], "expected": exp[:4]})


def run_delim(spec, ctx):
    from insights.parsers import parse_delimited_table
    delim, heads, rows = spec["delim"], spec["heads"], spec["rows"]
    d = "  " if delim is None else delim
    padf = (lambda c: " " + c + "  ") if spec["pad"] else (lambda c: c)
    lines = []
    kw = {"delim": delim, "strip": spec["strip"], "max_splits": spec["max_splits"]}
    if spec["junk"]:
        lines.extend(["junk before", ""])
        kw["heading_ignore"] = [heads[0]]
        if "junk before".startswith(heads[0]):
            return
    lines.append(d.join(padf(h) if spec["pad"] else h for h in heads))
    for r in rows:
        lines.append(d.join(padf(c) for c in r))
    if spec["footer"]:
        lines.extend(["Total: 2", ""])
        kw["trailing_ignore"] = ["Total"]
        if any(ln.strip().startswith("Total") for ln in lines[-2 - len(rows):-2][-1:]):
            return
    if spec["raw_key"]:
        kw["raw_line_key"] = spec["raw_key"]
    try:
        got = parse_delimited_table(lines, **kw)
    except Exception as ex:
        ctx.violation("delimited-table-raised", {"lines": lines, "options": kw, "exc": repr(ex)[:200]})
        return
    first_data = len(lines) - len(rows) - (2 if spec["footer"] else 0)
    exp = []
    for i, r in enumerate(rows):
        cells = list(r)
        rendered = lines[first_data + i]
        if not rendered.strip():
            continue
        if not spec["strip"] and delim is not None:
            # outer blanks of the line are always removed
            cells[0] = cells[0].lstrip() if len(cells) else cells
            cells[-1] = cells[-1].rstrip()
        if spec["strip"]:
            cells = [c.strip() for c in cells]
        if delim is not None and not spec["strip"] and len(cells) == 1:
            cells = [cells[0].strip()]
        o = {}
        for h, c in zip(heads, cells):
            o[h.strip() if spec["strip"] else h] = c
        if spec["raw_key"]:
            o[spec["raw_key"]] = rendered
        exp.append(o)
    ctx.count("delimited_tables")
    ctx.count("delimited_rows_with_only_empty_cells", sum(1 for r in rows if delim is not None and not "".join(r).strip()))
    ctx.count("cells_compared", sum(len(r) for r in rows))
    if got != exp:
        ctx.violation("delimited-table-cells-differ", {"lines": lines, "options": kw, "got": got[:4], "expected": exp[:4]})


def run_kv(spec, ctx):
    from insights.parsers import get_active_lines, split_kv_pairs
    sep, cc = spec["sep"], spec["cc"]
    lines = []
    model_lines = []        # what an active line must look like
    for it in spec["items"]:
        if it[0] == "comment":
            lines.append(it[1])
        elif it[0] == "blank":
            lines.append(it[1])
        elif it[0] == "nosep":
            if sep in it[1] or cc in it[1]:
                continue
            lines.append(it[1])
            model_lines.append((it[1], None, None))
        else:
            _, k, v, lead, sp, trail = it
            if cc in k or cc in v or (sep.strip() == "" and (v != v.strip() or "  " in v or sep in v)):
                v = "v"
            if cc in k:
                k = "kq"
            text = lead + k + sp + sep + sp + v + trail
            lines.append(text)
            active = (k + sp + sep + sp + v).strip()
            model_lines.append((active, k, v))
    got_active = get_active_lines(list(lines), comment_char=cc)
    exp_active = []
    for ln in lines:
        a = ln.split(cc, 1)[0].strip()
        if a:
            exp_active.append(a)
    ctx.count("kv_documents")
    if got_active != exp_active:
        ctx.violation("active-lines-differ", {"lines": lines, "comment_char": cc, "got": got_active, "expected": exp_active})
        return
    kw = {"comment_char": cc, "split_on": sep, "use_partition": spec["use_partition"], "ordered": spec["ordered"]}
    if spec["filter"] is not None:
        kw["filter_string"] = spec["filter"]
    got = split_kv_pairs(list(lines), **kw)
    exp = collections.OrderedDict()
    for a in exp_active:
        if spec["filter"] is not None and spec["filter"] not in a:
            continue
        if sep in a:
            k, v = a.split(sep, 1)
            exp[k.strip()] = v.strip()
        elif spec["use_partition"]:
            exp[a.strip()] = ""
    # cross-check the model against what was rendered: every rendered pair must be recoverable
    for active, k, v in model_lines:
        if k is None or (spec["filter"] is not None and spec["filter"] not in active):
            continue
        if sep.strip() and exp.get(k.strip()) is None:
            ctx.count("harness_errors")
            ctx.sets.setdefault("harness_error_texts", set()).add("kv model lost key %r of %r" % (k, lines))
    ctx.count("cells_compared", len(exp))
    if dict(got) != dict(exp):
        ctx.violation("key-value-pairs-differ", {"lines": lines, "options": kw, "got": dict(got), "expected": dict(exp)})
    elif spec["ordered"] and list(got.keys()) != list(exp.keys()):
        ctx.violation("key-order-differs", {"lines": lines, "got": list(got.keys()), "expected": list(exp.keys())})
    elif spec["ordered"] and not isinstance(got, collections.OrderedDict):
        ctx.violation("ordered-result-is-not-ordered", {"type": type(got).__name__})


def run_ini(spec, ctx):
    from insights.core import IniConfigFile
    from insights.core.exceptions import NoOptionError, NoSectionError
    from insights.tests import context_wrap
    text = []
    model = collections.OrderedDict()
    cur = None
    last_opt = None            # (section, key) of the option a following indented comment would attach to
    tainted = set()
    nbare = 0
    for it in spec["doc"]:
        if it[0] == "section":
            text.append(it[2] % it[1])
            cur = model.setdefault(it[1], collections.OrderedDict())
            cur_name = it[1]
            last_opt = None
        elif it[0] == "option":
            _, k, v, sep, cont = it
            text.append("%s%s%s" % (k, sep, v))
            for c in cont:
                text.append("    " + c)
            full = " ".join([v] + [c.split("#", 1)[0].rstrip(" \\") for c in cont]) if cont else v
            cur[k.strip().lower()] = full
            last_opt = (cur_name, k.strip().lower())
        elif it[0] == "indented_comment":
            text.append(it[1])
            if last_opt:
                tainted.add(last_opt)
        elif it[0] == "blank":
            text.append(it[1])
        elif it[0] == "barekey":
            text.append(it[1])
            last_opt = None
            nbare += 1
        else:
            text.append(it[1])
            last_opt = None
    defaults = model.get("DEFAULT")
    try:
        p = IniConfigFile(context_wrap("\n".join(text)))
    except Exception as ex:
        ctx.violation("ini-document-rejected", {"document": text, "exc": repr(ex)[:300]})
        return
    ctx.count("ini_documents")
    ctx.count("ini_keys_without_value", nbare)
    exp_sections = [s for s in model if s != "DEFAULT"]
    if p.sections() != exp_sections:
        ctx.violation("ini-sections-differ", {"document": text, "got": p.sections(), "expected": exp_sections})
        return
    for s, sd in model.items():
        exp = dict(sd)
        if defaults is not None and s != "DEFAULT":
            for k, v in defaults.items():
                exp.setdefault(k, v)
        try:
            got = p.items(s)
        except Exception as ex:
            ctx.violation("ini-items-raised", {"document": text, "section": s, "exc": repr(ex)[:200]})
            continue
        ctx.count("cells_compared", len(exp))
        if got != exp:
            diff = [k for k in set(got) | set(exp) if got.get(k) != exp.get(k)]
            known = all((s, k) in tainted or ("DEFAULT", k) in tainted for k in diff) and all(
                k in got and k in exp and got[k].startswith(exp[k]) for k in diff)
            nocc = sum(1 for it in spec["doc"] if it[0] == "section" and it[1] == s)
            repeat = (not known and nocc >= 2 and defaults is not None and s != "DEFAULT" and all(
                k in defaults and k in got and (got[k] == defaults[k] or (("DEFAULT", k) in tainted and got[k].startswith(defaults[k]))) or
                (((s, k) in tainted or ("DEFAULT", k) in tainted) and k in got and k in exp and got[k].startswith(exp[k])) for k in diff))
            ctx.violation(KNOWN_INI if known else (KNOWN_INI_REPEAT if repeat else "ini-options-differ"), {"document": text, "section": s,
                                                                       "got": dict((k, got.get(k)) for k in diff), "expected": dict((k, exp.get(k)) for k in diff)})
            continue
        if (s.strip() in p) is not True or s not in p:
            ctx.violation("ini-contains-wrong", {"section": s})
        for k, v in exp.items():
            for name in (k, k.upper(), k.title()):
                if p.get(s, name) != v or not p.has_option(s, name):
                    ctx.violation("ini-option-name-not-case-insensitive", {"document": text, "section": s, "option": name, "got": p.get(s, name), "expected": v})
            lv = v.lower()
            states = {"1": True, "0": False, "yes": True, "no": False, "true": True, "false": False, "on": True, "off": False}
            if lv in states:
                if p.getboolean(s, k) is not states[lv]:
                    ctx.violation("ini-getboolean-wrong", {"value": v, "got": p.getboolean(s, k)})
                ctx.count("ini_typed_accessors")
            try:
                iv = int(v)
            except ValueError:
                iv = None
            if iv is not None and p.getint(s, k) != iv:
                ctx.violation("ini-getint-wrong", {"value": v})
            try:
                fv = float(v)
            except ValueError:
                fv = None
            if fv is not None and fv == fv and p.getfloat(s, k) != fv:
                ctx.violation("ini-getfloat-wrong", {"value": v})
        try:
            p.get(s, "no such option zz")
            ctx.violation("ini-missing-option-did-not-raise", {"section": s})
        except NoOptionError:
            pass
    try:
        p.get("no such section zz", "x")
        ctx.violation("ini-missing-section-did-not-raise", {})
    except NoSectionError:
        pass
    if p.defaults() != (dict(defaults) if defaults is not None else {}):
        if not any(("DEFAULT", k) in tainted for k in (defaults or {})):
            ctx.violation("ini-defaults-differ", {"document": text, "got": p.defaults(), "expected": dict(defaults or {})})


def run_search(spec, ctx):
    from insights.parsers import keyword_search
    rows = spec["rows"]
    for qi, conds in enumerate(spec["queries"]):
        class Parent(object):
            pass
        # every other search is made on the plain list without a parent object to keep a cache on
        if qi % 2:
            got = keyword_search(list(rows), row_keys_change=spec["row_keys_change"], **conds)
            ctx.count("keyword_searches_without_a_parent")
        else:
            got = keyword_search(list(rows), parent=Parent(), row_keys_change=spec["row_keys_change"], **conds)
        # reference filter
        if not conds or not rows:
            exp = []
        else:
            keyset = set()
            for r in (rows if spec["row_keys_change"] else rows[:1]):
                keyset.update(r.keys())
            tx = dict((k.replace(" ", "_").replace("-", "_"), k) for k in keyset)
            terms = []
            exp = None
            for sk, v in conds.items():
                dk, _, m = sk.partition("__")
                if m not in ("contains", "startswith", "endswith", "lower_value"):
                    dk, m = sk, "equals"
                if dk not in tx:
                    exp = []
                    break
                terms.append((tx[dk], m, v))
            if exp is None:
                def ok(row, k, m, v):
                    if k not in row:
                        return False
                    s = row[k]
                    if m == "equals":
                        return s == v
                    if s is None:
                        return False
                    return {"contains": v in s, "startswith": s.startswith(v), "endswith": s.endswith(v), "lower_value": s.lower() == v.lower()}[m]
                exp = [r for r in rows if all(ok(r, *t) for t in terms)]
        ctx.count("keyword_searches")
        if got != exp or any(g is not e for g, e in zip(got, exp)):
            ctx.violation("keyword-search-returns-wrong-rows", {"rows": rows, "conditions": conds, "row_keys_change": spec["row_keys_change"],
                                                                "got": got, "expected": exp})
        if exp:
            ctx.count("keyword_searches_with_matches")


def run_case(spec, ctx):
    r = {"fixed": run_fixed, "delim": run_delim, "kv": run_kv, "ini": run_ini, "search": run_search}[spec["kind"]](spec, ctx)
    return nontrivial(spec)
