"""C09 - obfuscation is a consistent mapping, injective for IPs and hosts, and reported."""
import csv
import json
import os
import shutil
import tempfile

from vpmon import gen_text as T

ID = "C09"
LEVEL = "exploration"
RULE = ("histories on ONE cleaner: 3-30 clean_content calls ('specs') of 1-20 slot lines whose originals come from small "
        "pools (so they recur on the same line, on later lines and in later specs, in both orders); the IPv4 pool "
        "deliberately contains addresses inside the obfuscator's own substitute range, addresses carry trailing punctuation, "
        "keyword pairs nested in one another, a MAC that is textually the substitute of another MAC; monitors: every substitute "
        "the mapping reports must occur in the output; slot-wise reconstruction "
        "of original -> substitute from the output skeleton, class invariants on IPv4/Hostname/Mac/Keyword (tables only "
        "grow, IPv4 and host tables one-to-one; icontract when installed, plain wrappers otherwise) evaluated around every "
        "parse_line, and comparison with mapping(), the RHSM facts file and the CSV reports; one evaluation = one "
        "history; non-trivial = some original recurs in >= 2 specs and >= 2 kinds of originals occur; distinct by case hash")
ASSUMPTIONS = [
    "tokens are planted without suffixes and delimited by characters that cannot occur in a substitute, so the output can be split back into slots",
    "the system's domain is not the obfuscator's own substitute domain (example.com)",
    "keywords and host names are not sub-strings of substitutes; MAC originals are compared case-sensitively",
    "the keep-width (netstat) variant is not part of the slot reconstruction",
    "the short host name is reported under the system's fully-qualified name",
]
REACH = [
    "insights/cleaner/ip.py::IPv4._ip2db",
    "insights/cleaner/ip.py::IPv4.mapping",
    "insights/cleaner/hostname.py::Hostname._hn2db",
    "insights/cleaner/hostname.py::Hostname.mapping",
    "insights/cleaner/mac.py::Mac._mac2db",
    "insights/cleaner/mac.py::Mac.mapping",
    "insights/cleaner/keyword.py::Keyword.mapping",
    "insights/cleaner/__init__.py::Cleaner.generate_rhsm_facts",
    "insights/cleaner/__init__.py::Cleaner.generate_report",
    "insights/cleaner/utilities.py::write_report",
]
PLAN = {
    "quick": {"shards": 8, "cases": 660, "timeout_s": 900, "min_evaluations": 4500,
              "min_counters": {"slots_reconstructed": 300000, "invariant_evaluations": 300000, "mapping_pairs_compared": 30000,
                               "reports_parsed": 4500}},
    "thorough": {"shards": 16, "cases": 4000, "timeout_s": 3300, "min_evaluations": 50000,
                 "min_counters": {"slots_reconstructed": 3000000}},
}
KNOWN_F9 = "ipv4-original-textually-inside-an-issued-substitute"


class InvariantBroken(Exception):
    pass


_STATS = {"inv": 0}
_INSTALLED = [None]


def ip_db_one_to_one(self):
    _STATS["inv"] += 1
    vals = list(self._ip_db.values())
    return len(vals) == len(set(vals))


def hn_db_one_to_one(self):
    _STATS["inv"] += 1
    vals = list(self._hn_db.values())
    return len(vals) == len(set(vals))


def install_invariants():
    if _INSTALLED[0] is not None:
        return _INSTALLED[0]
    from insights.cleaner.hostname import Hostname
    from insights.cleaner.ip import IPv4
    from insights.cleaner.keyword import Keyword
    from insights.cleaner.mac import Mac
    how = "plain-wrappers"
    try:
        import icontract
        icontract.invariant(ip_db_one_to_one, error=lambda self: InvariantBroken("IPv4 table is not one-to-one: %r" % (self._ip_db,)))(IPv4)
        icontract.invariant(hn_db_one_to_one, error=lambda self: InvariantBroken("host table is not one-to-one: %r" % (self._hn_db,)))(Hostname)
        how = "icontract+wrappers"
    except ImportError:
        for cls, fn, name in ((IPv4, ip_db_one_to_one, "IPv4"), (Hostname, hn_db_one_to_one, "host")):
            def wrap(cls=cls, fn=fn, name=name):
                orig = cls.parse_line

                def parse_line(self, line, **kw):
                    r = orig(self, line, **kw)
                    if not fn(self):
                        raise InvariantBroken("%s table is not one-to-one" % name)
                    return r
                cls.parse_line = parse_line
            wrap()
    # tables only grow: every entry present before a parse_line is present and unchanged afterwards
    for cls, attr in ((IPv4, "_ip_db"), (Hostname, "_hn_db"), (Mac, "_mac_db"), (Keyword, "_kw_db")):
        def wrap2(cls=cls, attr=attr):
            orig = cls.parse_line

            def parse_line(self, line, **kw):
                before = dict(getattr(self, attr))
                r = orig(self, line, **kw)
                after = getattr(self, attr)
                _STATS["inv"] += 1
                for k, v in before.items():
                    if after.get(k, InvariantBroken) != v:
                        raise InvariantBroken("%s.%s lost or changed the entry %r: %r -> %r" % (cls.__name__, attr, k, v, after.get(k)))
                return r
            cls.parse_line = parse_line
        wrap2()
    _INSTALLED[0] = how
    return how


def directed(tier):
    cfg = {"fqdn": "srvq7.lab.zzcorp.test", "obfuscate": True, "obfuscate_hostname": True, "obfuscate_mac": True, "keywords": [], "patterns": None}
    return [{"cfg": cfg, "calls": [
        [{"tag": "~~0~0~~", "d": " ", "slots": [["ip", "70.80.150.194", "70.80.150.194"], ["ip", "8.8.8.8", "8.8.8.8"]]}],
        [{"tag": "~~0~1~~", "d": " ", "slots": [["ip", "70.80.150.194", "70.80.150.194"], ["ip", "10.230.230.1", "10.230.230.1"]]}],
        [{"tag": "~~0~2~~", "d": " ", "slots": [["ip", "8.8.8.8", "8.8.8.8"], ["ip", "70.80.150.194", "70.80.150.194"]]}]]}]


def gen_case(rng, tier, idx):
    cfg = T.gen_config(rng, force_obfuscate=True)
    cfg["obfuscate_hostname"] = rng.random() < 0.9
    cfg["obfuscate_mac"] = rng.random() < 0.9
    cfg["patterns"] = None
    ip_pool = [T.gen_ip(rng) for _ in range(rng.randint(2, 7))]
    if rng.random() < 0.5:
        ip_pool += ["10.230.230.%d" % rng.randint(1, 9) for _ in range(rng.randint(1, 3))]
    mac_pool = [T.gen_mac(rng) for _ in range(rng.randint(1, 5))]
    if rng.random() < 0.3 and mac_pool:
        mac_pool.append(mac_pool[0].upper() if mac_pool[0] != mac_pool[0].upper() else mac_pool[0].lower())
    host_pool = [h for h in (T.gen_otherhost(rng, cfg["fqdn"]) for _ in range(rng.randint(1, 5))) if h]
    kinds = ["ip", "ip", "ip", "mac", "fqdn", "short", "otherhost", "otherhost", "kw", "fill"]
    if rng.random() < 0.35:
        # keywords nested in one another, in either configured order
        pair = rng.choice([["ZEBRA", "ZEBRANET"], ["uniq", "uniqzz"], ["GQ", "MGQJ"]])
        if rng.random() < 0.5:
            pair.reverse()
        cfg["keywords"] = [k for k in cfg["keywords"] if k not in pair] + pair
        rng.shuffle(cfg["keywords"])
        kinds = kinds + ["kw"]
    if rng.random() < 0.3:
        # a keyword that is part of the system's host name / domain: the host-name obfuscator comes first (documented
        # order), so the names are replaced as names and the mapping lists the names that really occurred
        short_ = cfg["fqdn"].split(".")[0]
        comp = [short_[:max(3, len(short_) - 2)]]
        if "." in cfg["fqdn"]:
            comp.append(cfg["fqdn"].split(".")[1])
        kw_ = rng.choice(comp)
        if kw_ and not kw_.isdigit() and kw_ not in cfg["keywords"] and not any(kw_ in k or k in kw_ for k in cfg["keywords"]):
            cfg["keywords"] = cfg["keywords"] + [kw_]
    suffixes = rng.random() < 0.5         # addresses followed by '.', ',', ':port', '/prefix'
    calls = []
    base = rng.randint(0, 10 ** 6)
    for c in range(rng.randint(3, 30 if tier == "quick" else 60)):
        lines = []
        for l in range(rng.randint(1, 20)):
            lines.append(T.gen_line(rng, cfg, "~~%d~%d~%d~~" % (base, c, l), kinds=kinds, ip_pool=ip_pool, mac_pool=mac_pool,
                                    host_pool=host_pool, plain_tokens=not suffixes))
        calls.append(lines)
    if rng.random() < 0.05:
        # a large site: more distinct addresses than one /24 of substitutes holds, first listed four to a line, then recurring
        many = []
        while len(many) < rng.randint(258, 300 if tier == "quick" else 600):
            a = T.gen_ip(rng)
            if a not in many and a not in ip_pool and not a.startswith("10.230.") and not a.startswith("127."):
                many.append(a)
        bulk = []
        for i in range(0, len(many), 4):
            bulk.append({"tag": "~~%d~7000~%d~~" % (base, i), "d": " ", "slots": [["fill", "link", "link"]] + [["ip", a, a] for a in many[i:i + 4]]})
        calls.insert(rng.randint(0, len(calls)), bulk[:len(bulk) // 2])
        calls.insert(rng.randint(0, len(calls)), bulk[len(bulk) // 2:])
        calls.append([{"tag": "~~%d~7001~%d~~" % (base, i), "d": " ", "slots": [["ip", a, a] for a in rng.sample(many, 3)]} for i in range(20)])
    if cfg["obfuscate_hostname"] and "." in cfg["fqdn"] and rng.random() < 0.12:
        # a cluster member list: many hosts of the system's domain on ONE line, the same hosts one per line elsewhere
        dom = T.domain_of(cfg["fqdn"])
        members = ["%s%02dq.%s" % (rng.choice(["ndz", "wk-", "db_"]), i, dom) for i in rng.sample(range(100), rng.randint(11, 16))] if dom else []
        if len(members) >= 11:
            single = [{"tag": "~~%d~7002~%d~~" % (base, i), "d": " ", "slots": [["fill", "link", "link"], ["otherhost", h, h]]} for i, h in enumerate(members)]
            listing = {"tag": "~~%d~7003~~" % base, "d": " ", "slots": [["fill", "up", "up"]] + [["otherhost", h, h] for h in members]}
            order = [single[:len(single) // 2], [listing], single[len(single) // 2:], [dict(listing, tag="~~%d~7004~~" % base)]]
            if rng.random() < 0.5:
                order.reverse()
            for blk in order:
                calls.insert(rng.randint(0, len(calls)), blk)
    if cfg["obfuscate_mac"] and rng.random() < 0.25:
        # an original that is textually the substitute of another original (substitutes are per-octet SHA-1 prefixes, so
        # such a pair can be planted): X is seen first, then W with substitute(W) == X, then X again
        import hashlib
        w = ":".join("%02x" % rng.randint(0, 255) for _ in range(6))
        if w not in ("00:00:00:00:00:00", "ff:ff:ff:ff:ff:ff"):
            x = ":".join(hashlib.sha1(h.encode()).hexdigest()[:2] for h in w.split(":"))
            if x not in ("00:00:00:00:00:00", "ff:ff:ff:ff:ff:ff") and x != w:
                def one(tag, m):
                    return {"tag": "~~%d~%s~~" % (base, tag), "d": " ", "slots": [["fill", "link", "link"], ["mac", m, m], ["fill", "up", "up"]]}
                calls.insert(0, [one("90", x)])
                calls.insert(rng.randint(1, len(calls)), [one("91", w), one("92", x)])
                calls.append([one("93", x), one("94", w)])
    return {"cfg": cfg, "calls": calls}


def nontrivial(spec):
    seen = {}
    for c, lines in enumerate(spec["calls"]):
        for ls in lines:
            for k, v, shown in ls["slots"]:
                if k in ("ip", "mac", "fqdn", "short", "otherhost"):
                    seen.setdefault((k, v), set()).add(c)
    kinds = set(k for (k, v) in seen)
    return len(kinds) >= 2 and any(len(cs) >= 2 for cs in seen.values())


def run_case(spec, ctx):
    how = install_invariants()
    ctx.seen("invariant_mechanism", how)
    cfg = dict(spec["cfg"])
    base = tempfile.mkdtemp(prefix="vpc09_")
    try:
        cfg["rhsm_facts_file"] = os.path.join(base, "facts.json")
        cleaner = T.make_cleaner(cfg)
        cleaner.report_dir = base
        fqdn = cfg["fqdn"]
        seen = {"ip": {}, "host": {}, "mac": {}, "kw": {}}          # original -> {substitute: first witness}
        planted = {"ip": set(), "host": set(), "mac": set(), "kw": set()}
        inv0 = _STATS["inv"]
        issued_ip = set()
        kws = list(cfg.get("keywords") or [])
        nested_kw = set(a for a in kws for b in kws if a != b and (a in b or b in a))
        all_out = []
        any_f9 = False
        for lines in spec["calls"]:
            rendered = [T.render(ls) for ls in lines]
            for kw_ in kws:
                if any(kw_ in r_ for r_ in rendered):
                    planted["kw"].add(kw_)
            try:
                out = cleaner.clean_content(list(rendered))
            except InvariantBroken as ex:
                ctx.violation("obfuscator-table-invariant-broken", {"error": str(ex)[:500]})
                return True
            outby = dict((T.tag_of(o), o) for o in out if o)
            all_out.extend(o for o in out if o)
            ipobf = cleaner.obfuscate.get("ip")
            for ls, line in zip(lines, rendered):
                o = outby.get(ls["tag"])
                if o is None:
                    ctx.violation("line-lost-without-exclusion-pattern", {"line": line})
                    continue
                parts = T.split_slots(ls, o)
                line_ips = [s[1] for s in ls["slots"] if s[0] == "ip"]
                f9 = _f9_shape(line_ips, dict((x["original"], x["obfuscated"]) for x in ipobf.mapping()) if ipobf else {})
                any_f9 = any_f9 or f9
                if parts is None:
                    ctx.violation(KNOWN_F9 if f9 else "output-skeleton-broken", {"line": line, "output": o})
                    continue
                for (k, v, shown), got in zip(ls["slots"], parts):
                    ctx.count("slots_reconstructed")
                    if k == "ip" and shown != v:
                        # the text planted behind the address is not part of it and must come through unchanged
                        suffix = shown[len(v):]
                        ctx.count("ip_slots_with_trailing_punctuation")
                        if not got.endswith(suffix):
                            ctx.violation(KNOWN_F9 if f9 else "non-sensitive-slot-changed", {"slot": shown, "got": got, "line": line, "output": o})
                            continue
                        got = got[:len(got) - len(suffix)]
                    if k == "kw" and shown != v:
                        i_ = shown.index(v)
                        pre_, post_ = shown[:i_], shown[i_ + len(v):]
                        ctx.count("keyword_slots_inside_a_longer_word")
                        if not (got.startswith(pre_) and got.endswith(post_) and len(got) >= len(pre_) + len(post_)):
                            ctx.violation("non-sensitive-slot-changed", {"slot": shown, "got": got, "line": line, "output": o})
                            continue
                        got = got[len(pre_):len(got) - len(post_)]
                    if k == "kw" and v in nested_kw:
                        ctx.count("nested_keyword_slots")
                        continue        # which of two overlapping keywords wins is not fixed; judged through the mapping below
                    fam = {"ip": "ip", "mac": "mac", "fqdn": "host", "short": "host", "otherhost": "host", "kw": "kw"}.get(k)
                    if fam is None:
                        if got != shown:
                            ctx.violation("non-sensitive-slot-changed", {"slot": shown, "got": got, "line": line, "output": o})
                        continue
                    if fam == "ip" and v == "127.0.0.1":
                        continue
                    if fam == "mac" and v.lower() in ("00:00:00:00:00:00", "ff:ff:ff:ff:ff:ff"):
                        continue
                    if fam == "host" and not cfg["obfuscate_hostname"]:
                        continue
                    if fam == "mac" and not cfg["obfuscate_mac"]:
                        continue
                    orig = fqdn if k == "short" else v
                    planted[fam].add(orig)
                    d = seen[fam].setdefault(orig, {})
                    if got not in d:
                        d[got] = {"line": line, "output": o, "f9": f9}
            if ipobf:
                issued_ip |= set(x["obfuscated"] for x in ipobf.mapping())
        ctx.count("invariant_evaluations", _STATS["inv"] - inv0)
        ipobf_final = cleaner.obfuscate.get("ip")
        # ---- consistency / injectivity ---------------------------------
        for fam in seen:
            rev = {}
            for orig, subs in seen[fam].items():
                if len(subs) > 1:
                    f9 = fam == "ip" and any(w["f9"] for w in subs.values())
                    ctx.violation(KNOWN_F9 if f9 else "same-original-several-substitutes",
                                  {"kind": fam, "original": orig, "substitutes": dict((s, w["output"]) for s, w in list(subs.items())[:3])})
                for s, w in subs.items():
                    if s == orig and fam != "kw":
                        if fam == "ip" and ipobf_final is not None and any(x["original"] == orig and x["obfuscated"] == orig for x in ipobf_final.mapping()):
                            # the next free substitute happened to BE this original (the n-th address of the run is
                            # 10.230.230.n): consistently mapped to itself, which is a substitute issued by the obfuscator
                            ctx.count("ip_originals_mapped_to_themselves")
                            rev.setdefault(s, set()).add(orig)
                            continue
                        if fam == "mac":
                            mobf = cleaner.obfuscate.get("mac")
                            if mobf and orig in mobf._mac_db.values():
                                continue      # an original equal to an issued substitute is left alone (allowed by C08's exception)
                        f9 = fam == "ip" and w["f9"]
                        ctx.violation(KNOWN_F9 if f9 else "original-not-replaced", {"kind": fam, "original": orig, "line": w["line"], "output": w["output"]})
                    rev.setdefault(s, set()).add(orig)
            if fam in ("ip", "host"):
                for s, origs in rev.items():
                    if len(origs) > 1:
                        f9 = fam == "ip" and any(seen[fam][o_][s]["f9"] for o_ in origs)
                        ctx.violation(KNOWN_F9 if f9 else "different-originals-share-a-substitute", {"kind": fam, "substitute": s, "originals": sorted(origs)})
            ctx.count("originals_tracked_" + fam, len(seen[fam]))
        # ---- reported mapping --------------------------------------------
        cleaner.generate_report("arch")
        maps = {}
        for fam, key in (("ip", "ip"), ("host", "hostname"), ("mac", "mac"), ("kw", "keyword")):
            ob = cleaner.obfuscate.get(key)
            maps[fam] = [(m["original"], m["obfuscated"]) for m in ob.mapping()] if ob else None
        with open(cfg["rhsm_facts_file"]) as f:
            facts = json.load(f)
        ctx.count("reports_parsed")
        fact_maps = {"ip": "insights_client.obfuscated_ipv4", "host": "insights_client.obfuscated_hostname",
                     "mac": "insights_client.obfuscated_mac", "kw": "insights_client.obfuscated_keyword"}
        csv_names = {"ip": "arch-ip.csv", "host": "arch-hostname.csv", "mac": "arch-mac.csv", "kw": "arch-keyword.csv"}
        for fam in seen:
            if maps[fam] is None:
                continue
            mp = set(maps[fam])
            fm = set((m["original"], m["obfuscated"]) for m in json.loads(facts[fact_maps[fam]]))
            if fm != mp:
                ctx.violation("facts-file-differs-from-mapping", {"kind": fam, "only_mapping": sorted(mp - fm)[:3], "only_facts": sorted(fm - mp)[:3]})
            p = os.path.join(base, csv_names[fam])
            if os.path.exists(p):
                with open(p) as f:
                    rows = [tuple(r) for r in csv.reader(f)][1:]
                cm = set(frozenset(r) for r in rows if len(r) == 2)
                if cm != set(frozenset(x) for x in mp if x[0] != x[1]) | set(frozenset(x) for x in mp if x[0] == x[1]):
                    ctx.violation("csv-report-differs-from-mapping", {"kind": fam, "csv": sorted(map(sorted, cm))[:4], "mapping": sorted(mp)[:4]})
                ctx.count("reports_parsed")
            for orig, subs in seen[fam].items():
                for s, w in subs.items():
                    ctx.count("mapping_pairs_compared")
                    if s == orig:
                        continue
                    if (orig, s) not in mp:
                        f9 = fam == "ip" and w["f9"]
                        ctx.violation(KNOWN_F9 if f9 else "observed-substitution-missing-from-mapping",
                                      {"kind": fam, "original": orig, "substitute_in_output": s, "mapping_says": [m for m in mp if m[0] == orig][:2],
                                       "line": w["line"], "output": w["output"]})
            for orig, s in mp:
                if orig not in planted[fam] and not (fam == "host" and orig == fqdn):
                    ctx.violation("mapping-lists-original-that-never-occurred", {"kind": fam, "original": orig, "substitute": s})
                # "pairs every replaced original with the substitute that actually appears in the output"
                if fam in ("kw", "ip") and s != orig and not (fam == "ip" and any_f9) and not (fam == "ip" and orig == "127.0.0.1"):
                    ctx.count("mapping_substitutes_searched_in_output")
                    if not any(s in o_ for o_ in all_out):
                        ctx.violation("mapping-substitute-appears-nowhere-in-output", {"kind": fam, "original": orig, "substitute": s,
                                                                                       "keywords": kws if fam == "kw" else None})
        return nontrivial(spec)
    finally:
        shutil.rmtree(base, ignore_errors=True)


def _f9_shape(line_ips, mapping):
    """the recorded known finding, by mechanism: TWO different originals on one line, one of them textually contained
    in the substitute of the other (the sequential str.replace then re-replaces inside that substitute).  An original
    that merely equals a substitute issued earlier - alone on its line - is NOT this shape."""
    for a in line_ips:
        sa = mapping.get(a)
        if not sa:
            continue
        for b in line_ips:
            # ... or the same original twice on the line when its own substitute contains it (10.230.230.1 -> 10.230.230.10)
            if b in sa and (b != a or (line_ips.count(a) >= 2 and sa != a)):
                return True
    return False
