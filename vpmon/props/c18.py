"""C18 - the signed digest covers everything but the declared dynamic parts."""
import copy
import json
import hashlib

ID = "C18"
LEVEL = "exploration"
RULE = ("plays as nested dict/list/scalar trees (strings with both kinds of quotes, backslashes, control and zero-width "
        "characters and the serializer's own delimiters), for a share rendered to YAML and loaded through the module's own "
        "loader (CommentedMap, ScalarInt, ...); every play has vars.insights_signature_exclude and vars.insights_signature; "
        "one evaluation = one (play, edit) pair: change / insert / delete / reorder / re-nest / retype (1 <-> '1' <-> 1.0 "
        "<-> True, None <-> 'None') of a key or value outside the excluded paths, edits confined to excluded elements, and "
        "crafted edits that try to re-create the other play's serialised text (merge two entries into one key, split a "
        "string into list items, move a quote across a key/value boundary, text that looks like a serialised mapping, control "
        "characters vs escape texts, a key repeated in the YAML text); the "
        "digests of exclude_dynamic_elements(p) and (p') must differ iff the non-excluded parts differ as typed trees "
        "(own 10-line exclusion model); plus the error clauses through verify_play / verify with GnuPG stubbed; "
        "non-trivial = the edit is effective outside the excluded part or crafted; distinct by case hash")
ASSUMPTIONS = [
    "GnuPG is not involved: execute_verification is stubbed to 'valid' for the error and revocation clauses",
    "the digest is hash_play(serialize_play(exclude_dynamic_elements(play))) on this interpreter (3.12: the PlaybookSerializer path)",
    "floats are finite; keys are strings, integers or booleans",
]
REACH = [
    "insights/client/apps/ansible/playbook_verifier/serializer.py::PlaybookSerializer._obj",
    "insights/client/apps/ansible/playbook_verifier/serializer.py::PlaybookSerializer._str",
    "insights/client/apps/ansible/playbook_verifier/serializer.py::PlaybookSerializer._dict",
    "insights/client/apps/ansible/playbook_verifier/serializer.py::PlaybookSerializer._list",
    "insights/client/apps/ansible/playbook_verifier/__init__.py::exclude_dynamic_elements",
    "insights/client/apps/ansible/playbook_verifier/__init__.py::serialize_play",
    "insights/client/apps/ansible/playbook_verifier/__init__.py::hash_play",
    "insights/client/apps/ansible/playbook_verifier/__init__.py::verify_play",
    "insights/client/apps/ansible/playbook_verifier/__init__.py::verify",
    "insights/client/apps/ansible/playbook_verifier/__init__.py::load_playbook_yaml",
]
PLAN = {
    "quick": {"shards": 8, "cases": 6000, "timeout_s": 900, "min_evaluations": 40000,
              "min_counters": {"digest_pairs_compared": 40000, "effective_edits": 24000, "excluded_only_edits": 5000, "crafted_edits": 6000,
                               "pairs_through_yaml_loader": 6000, "error_clauses_checked": 5000}},
    "thorough": {"shards": 16, "cases": 70000, "timeout_s": 3300, "min_evaluations": 1000000,
                 "min_counters": {"digest_pairs_compared": 1000000}},
}
STR_ATOMS = ["a", "b", "key", "x y", "'", "\"", "\\", "\n", "\t", "\r", "​", "‌", "', '", "'), ('", "ordereddict([", "])", "[", "]", "(", ")",
             ",", " ", "é", "\\'", "\\n", "None", "True", "1", "1.0", "{{ var }}", "#", ": ", "- "]
EXCLUDES = ["/hosts,/vars/insights_signature", "/hosts,/vars/insights_signature,/vars/dyn", "/vars/insights_signature", "hosts,vars/insights_signature",
            "/hosts,/vars"]


def gen_str(rng):
    return "".join(rng.choice(STR_ATOMS) for _ in range(rng.randint(0, 4)))


def gen_scalar(rng):
    r = rng.random()
    if r < 0.5:
        return gen_str(rng)
    if r < 0.65:
        return rng.choice([0, 1, -1, 2, 10, 255, 10 ** 12])
    if r < 0.75:
        return rng.choice([1.0, 0.5, -2.25, 1e16, 0.0])
    if r < 0.87:
        return rng.choice([True, False])
    return None


def gen_value(rng, depth):
    r = rng.random()
    if depth <= 0 or r < 0.45:
        return gen_scalar(rng)
    if r < 0.7:
        return [gen_value(rng, depth - 1) for _ in range(rng.randint(0, 3))]
    return gen_map(rng, depth - 1)


def gen_key(rng):
    r = rng.random()
    if r < 0.8:
        return rng.choice(["name", "tasks", "when", "a", "b", "c", "k1", "k 2", "become"]) + rng.choice(["", "", "_x", "2"])
    if r < 0.9:
        return gen_str(rng) or "e"
    return rng.choice([1, 2, 10, True])


def gen_map(rng, depth):
    # a list of pairs: JSON has no non-string keys and ordering matters
    pairs = []
    seen = set()
    for _ in range(rng.randint(0, 4)):
        k = gen_key(rng)
        if (type(k).__name__, k) in seen or any(k == s[1] for s in seen):
            continue
        seen.add((type(k).__name__, k))
        pairs.append([k, gen_value(rng, depth)])
    return {"__map__": pairs}


def gen_case(rng, tier, idx):
    play = gen_map(rng, 3)
    top = [p for p in play["__map__"] if p[0] not in ("hosts", "vars")]
    vars_ = gen_map(rng, 1)
    vars_["__map__"] = [p for p in vars_["__map__"] if p[0] not in ("insights_signature", "insights_signature_exclude", "dyn")]
    excl = rng.choice(EXCLUDES)
    vars_["__map__"] += [["insights_signature_exclude", excl], ["insights_signature", "c2lnbmF0dXJl%d" % rng.randint(0, 9)]]
    if "dyn" in excl:
        vars_["__map__"].append(["dyn", gen_value(rng, 1)])
    rng.shuffle(vars_["__map__"])
    top += [["hosts", rng.choice(["localhost", "all", ["h1", "h2"]])], ["vars", vars_]]
    rng.shuffle(top)
    play = {"__map__": top}
    kind = rng.choice(["edit", "edit", "edit", "excluded", "crafted", "crafted"])
    return {"play": play, "edit_kind": kind, "edit_seed": rng.getrandbits(32), "yaml": rng.random() < 0.35}


# ---- JSON-able encoding <-> python objects --------------------------------------
def decode(v):
    if isinstance(v, dict) and "__map__" in v:
        d = {}
        for k, x in v["__map__"]:
            d[k] = decode(x)
        return d
    if isinstance(v, list):
        return [decode(x) for x in v]
    return v


def typed(v):
    """canonical typed tree (order and types matter)"""
    if isinstance(v, dict):
        return ("map", tuple((typed(k), typed(x)) for k, x in v.items()))
    if isinstance(v, (list, tuple)):
        return ("seq", tuple(typed(x) for x in v))
    if isinstance(v, bool):
        return ("bool", bool(v))
    if isinstance(v, int):
        return ("int", int(v))
    if isinstance(v, float):
        return ("float", repr(float(v)))
    if isinstance(v, str):
        return ("str", str(v))
    if v is None:
        return ("none",)
    return ("other", type(v).__name__, str(v))


def model_exclude(play):
    """the statement: only hosts / vars or a direct child of them can be excluded; returns (tree, error)"""
    vars_ = play.get("vars")
    if not isinstance(vars_, dict):
        return None, "no-vars-section"
    if vars_.get("insights_signature") is None:
        return None, "no-signature"
    if "insights_signature_exclude" not in vars_:
        return None, "no-exclusion-list"
    out = copy.deepcopy(play)
    for element in str(vars_["insights_signature_exclude"]).split(","):
        parts = [p for p in element.split("/") if p != ""]
        if len(parts) == 1 and parts[0] in ("hosts", "vars"):
            if parts[0] not in out:
                return None, "missing"
            del out[parts[0]]
        elif len(parts) == 2 and parts[0] in ("hosts", "vars"):
            try:
                del out[parts[0]][parts[1]]
            except Exception:
                return None, "missing"
        else:
            return None, "not-excludable"
    return out, None


# ---- edits -------------------------------------------------------------------
def paths(v, prefix=()):
    """all (path, container, key) addresses"""
    out = []
    if isinstance(v, dict):
        for k in list(v):
            out.append((prefix + (k,), v, k))
            out.extend(paths(v[k], prefix + (k,)))
    elif isinstance(v, list):
        for i in range(len(v)):
            out.append((prefix + (i,), v, i))
            out.extend(paths(v[i], prefix + (i,)))
    return out


def retype(v, rng):
    table = [(1, "1"), ("1", 1), (1, 1.0), (1.0, 1), (1, True), (True, 1), (True, "True"), (None, "None"), ("None", None), (0, False), (False, 0), ("", None),
             (0, ""), ([], {}), ({}, [])]
    for a, b in table:
        if type(a) is type(v) and a == v:
            return b
    if isinstance(v, str):
        return [v]
    if isinstance(v, list):
        return tuple(v) and {"0": v} or {}
    if isinstance(v, dict):
        return list(v.items()) and [[k, x] for k, x in v.items()]
    return str(v)


def apply_edit(play, kind, rng):
    """returns (edited play, label)"""
    p = copy.deepcopy(play)
    if kind == "excluded":
        tree, err = model_exclude(play)
        excl = str(play["vars"]["insights_signature_exclude"])
        choice = rng.random()
        if "hosts" in p and "hosts" in excl and choice < 0.5:
            p["hosts"] = rng.choice(["other-host", ["x"], 5, None])
            return p, "excluded:hosts"
        if "/vars/insights_signature" in excl or "vars/insights_signature" in excl:
            p["vars"]["insights_signature"] = "b3RoZXI%d" % rng.randint(0, 99)
            return p, "excluded:signature"
        if "dyn" in p["vars"] and "dyn" in excl:
            p["vars"]["dyn"] = gen_value(rng, 1) if False else rng.choice([1, "z", [1, 2]])
            return p, "excluded:dyn"
        if "hosts" in p:
            p["hosts"] = "other"
        return p, "excluded:hosts"
    if kind == "crafted":
        which = rng.randrange(12)
        target = p
        # choose a random mapping inside the signed part to host the crafted entry
        maps = [(path, c, k) for path, c, k in paths(p) if isinstance(c[k], dict) and path[0] not in ("hosts",) and path != ("vars",)]
        if maps and rng.random() < 0.5:
            path, c, k = rng.choice(maps)
            target = c[k]
        q = copy.deepcopy(p)
        # re-locate target in q
        tq = q
        if target is not p:
            for step in path:
                tq = tq[step]
        if which == 0:
            target["a"], target["c"] = "b", "d"
            tq.pop("a", None)
            tq.pop("c", None)
            tq["a', 'b'), ('c"] = "d"
            return (p, q), "crafted:merge-two-entries-into-one-key"
        if which == 1:
            target[1] = "x"
            tq.pop(1, None)
            tq["1"] = "x"
            return (p, q), "crafted:int-key-vs-str-key"
        if which == 2:
            target["s"] = "x', 'y"
            tq["s"] = ["x", "y"]
            return (p, q), "crafted:string-vs-list-items"
        if which == 3:
            target["k"] = "v"
            tq.pop("k", None)
            tq["k', 'v'), ('z"] = "w"
            target["z"] = "w"
            return (p, q), "crafted:quote-moved-across-key-value-boundary"
        if which == 4:
            target["m"] = {"a": "b"}
            tq["m"] = "ordereddict([('a', 'b')])"
            return (p, q), "crafted:text-that-looks-like-a-mapping"
        if which == 5:
            target["e"] = "a\\'b\""
            tq["e"] = "a'b\""
            return (p, q), "crafted:backslash-before-quote"
        if which == 6:
            target[True] = "t"
            tq.pop(True, None)
            tq["True"] = "t"
            return (p, q), "crafted:bool-key-vs-str-key"
        if which == 7:
            a_, b_ = rng.choice([("a\\nb", "a\nb"), ("\\t", "\t"), ("x\\u200by", "x\u200by"), ("\\\\", "\\")])
            target["esc"] = a_
            tq["esc"] = b_
            return (p, q), "crafted:escape-sequence-vs-character"
        if which == 8:
            target["s2"] = ["x', 'y\"z"]
            tq["s2"] = ["x", "y\"z"]
            return (p, q), "crafted:both-quotes-string-vs-list-items"
        if which == 10:
            # a control character next to a hex digit vs the one character whose code those two hex digits spell, and
            # a control character vs the text of an escape sequence for it
            c = rng.choice([1, 1, 2, 7, 0xb, 0xc, 0xe, 0xf, 0x1b])
            h = rng.choice("0123456789abcdef")
            tail = rng.choice(["", "z", " x"])
            a_, b_ = rng.choice([(chr(c) + h + tail, chr((c * 16 + int(h, 16)) % 0x110000) + tail),
                                 (chr(c) + tail, "\\x%02x" % c + tail), (chr(c) + tail, "\\x%x" % c + tail),
                                 (chr(c) + h + tail, "\\x%x%s" % (c, h) + tail), ("\x7f" + tail, "\\x7f" + tail), ("\r" + tail, "\\r" + tail)])
            target["ctl"] = a_
            tq["ctl"] = b_
            return (p, q), "crafted:control-character-vs-escape-text"
        if which == 11:
            c = rng.choice([1, 7, 0xc, 0x1f])
            target[chr(c) + "0"] = "v"
            tq.pop(chr(c) + "0", None)
            tq[chr(c * 16)] = "v"
            return (p, q), "crafted:control-character-in-key"
        target["n"] = [1]
        tq["n"] = 1
        return (p, q), "crafted:single-item-list-vs-item"
    # ordinary single edit outside the excluded part (may also land inside it: the model decides what is expected)
    addrs = [a for a in paths(p) if a[0] != ("vars", "insights_signature_exclude")]
    op = rng.choice(["change", "insert", "delete", "reorder", "renest", "retype", "rename"])
    if not addrs:
        op = "insert"
    if op == "insert":
        maps = [p] + [c[k] for path, c, k in addrs if isinstance(c[k], dict)]
        m = rng.choice(maps)
        nk = "new_%d" % rng.randint(0, 99)
        m[nk] = gen_scalar(rng)
        return p, "insert"
    path, c, k = rng.choice(addrs)
    if op == "change":
        old = c[k]
        for _ in range(5):
            nv = gen_scalar(rng)
            if typed(nv) != typed(old):
                break
        c[k] = nv
        return p, "change"
    if op == "delete":
        del c[k]
        return p, "delete"
    if op == "reorder":
        conts = [x for x in [p] + [cc[kk] for _, cc, kk in addrs if isinstance(cc[kk], (dict, list))] if len(x) >= 2]
        if not conts:
            p["zz_new"] = 1
            return p, "insert"
        x = rng.choice(conts)
        if isinstance(x, list):
            i, j = rng.sample(range(len(x)), 2)
            x[i], x[j] = x[j], x[i]
        else:
            items = list(x.items())
            i, j = rng.sample(range(len(items)), 2)
            items[i], items[j] = items[j], items[i]
            x.clear()
            for kk, vv in items:
                x[kk] = vv
        return p, "reorder"
    if op == "renest":
        c[k] = rng.choice([[c[k]], {"nested": c[k]}, [[c[k]]]])
        return p, "renest"
    if op == "rename":
        if isinstance(c, dict):
            items = list(c.items())
            c.clear()
            for kk, vv in items:
                c[(str(kk) + "_r") if kk == k else kk] = vv
            return p, "rename-key"
        c[k] = gen_scalar(rng)
        return p, "change"
    c[k] = retype(c[k], rng)
    return p, "retype"


class FakeResult(object):
    valid = True
    status = "signature valid"

    def __bool__(self):
        return True
    __nonzero__ = __bool__


def directed(tier):
    return [{"kind": "deep", "shape": sh} for sh in ("list", "map", "mixed")]


def run_deep(spec, ctx):
    """Plays nested hundreds of levels deep that differ only at the bottom: either such a play is refused (any exception: the
    interpreter's recursion limit is a refusal, nothing verifies) or the two digests differ."""
    from insights.client.apps.ansible import playbook_verifier as pv

    def nest(leaf, depth):
        v = leaf
        for i in range(depth):
            kind = spec["shape"] if spec["shape"] != "mixed" else ("list" if i % 2 else "map")
            v = [v] if kind == "list" else {"k": v}
        return v

    def digest(p):
        def fake_execute(cleaned, sig):
            return FakeResult(), pv.hash_play(pv.serialize_play(cleaned))
        saved = pv.execute_verification
        pv.execute_verification = fake_execute
        try:
            return pv.verify_play(p)[1]
        except BaseException as ex:
            if isinstance(ex, (KeyboardInterrupt, SystemExit)):
                raise
            ctx.seen("deep_play_refusals", type(ex).__name__)
            return None
        finally:
            pv.execute_verification = saved
    for depth in range(40, 700, 10):
        plays = []
        for leaf in ("echo ok", "rm -rf /"):
            plays.append({"name": "deep", "hosts": "localhost", "tasks": nest({"shell": leaf}, depth),
                          "vars": {"insights_signature_exclude": "/hosts,/vars/insights_signature", "insights_signature": "c2ln"}})
        da, db = digest(plays[0]), digest(plays[1])
        ctx.count("deep_play_pairs")
        if da is None or db is None:
            ctx.count("deep_play_pairs_refused")
            continue
        ctx.count("digest_pairs_compared")
        if da == db:
            ctx.violation("digest-unchanged-by-change-below-deep-nesting", {"depth": depth, "shape": spec["shape"]})
            return True
    return True


def run_case(spec, ctx):
    import random
    from insights.client.apps.ansible import playbook_verifier as pv
    if spec.get("kind") == "deep":
        return run_deep(spec, ctx)
    rng = random.Random(spec["edit_seed"])
    play = decode(spec["play"])
    res = apply_edit(play, spec["edit_kind"], rng)
    (edited, label) = res
    if isinstance(edited, tuple):
        a, b = edited
    else:
        a, b = play, edited
    via_yaml = False
    if spec["yaml"]:
        try:
            import yaml as pyyaml
            ta = pyyaml.safe_dump([a], sort_keys=False, allow_unicode=True, default_flow_style=False)
            tb = pyyaml.safe_dump([b], sort_keys=False, allow_unicode=True, default_flow_style=False)
            la = pv.load_playbook_yaml(ta)[0]
            lb = pv.load_playbook_yaml(tb)[0]
            if typed(la) == typed(a) and typed(lb) == typed(b):
                a, b = la, lb
                via_yaml = True
            else:
                ctx.count("yaml_round_trip_changed_the_tree")
        except Exception:
            ctx.count("yaml_not_representable")

    def digest(p):
        """the digest that would be checked against the signature: through verify_play with GnuPG stubbed"""
        captured = {}

        def fake_execute(cleaned, sig):
            captured["serialized"] = pv.serialize_play(cleaned)
            return FakeResult(), pv.hash_play(captured["serialized"])
        saved_exec = pv.execute_verification
        pv.execute_verification = fake_execute
        try:
            _, h = pv.verify_play(p)
        except pv.PlaybookVerificationError as ex:
            return None, str(ex)
        finally:
            pv.execute_verification = saved_exec
        return h, captured["serialized"]
    da, sa = digest(a)
    db, sb = digest(b)
    if via_yaml and da is not None:
        # an insertion made in the playbook text: a second entry for a key of a signed mapping.  Either the text is
        # refused or what it loads to has another digest - it must never verify like the untouched play.
        import yaml as pyyaml
        signed_keys = [k for k in a if k not in ("hosts", "vars") and isinstance(k, str)]
        var_keys = [k for k in (a.get("vars") or {}) if isinstance(k, str) and not k.startswith("insights_signature")] if isinstance(a.get("vars"), dict) else []
        excl = str((a.get("vars") or {}).get("insights_signature_exclude", "")) if isinstance(a.get("vars"), dict) else ""
        var_keys = [k for k in var_keys if "/vars/" + k not in excl and "/vars" not in [x.strip() for x in excl.split(",")]]
        texts = []
        if signed_keys:
            k = rng.choice(signed_keys)
            # JSON flow notation is YAML; the key is spelled double-quoted whatever its original style was
            extra = json.dumps(str(k)) + ": " + json.dumps(rng.choice(["injected", ["injected", {"x": 1}], {"shell": "id"}]))
            texts.append(("play", ta + ("" if ta.endswith("\n") else "\n") + "  " + extra + "\n"))
        for label2, text2 in texts:
            ctx.count("duplicate_key_texts_tried")
            try:
                dup = pv.load_playbook_yaml(text2)
            except pv.PlaybookVerificationError:
                ctx.count("duplicate_key_texts_refused")
                continue
            except Exception as ex:
                ctx.violation("playbook-loader-raised-another-exception-type", {"exc": repr(ex)[:200], "text": text2[-300:]})
                continue
            if not (isinstance(dup, list) and len(dup) == 1 and isinstance(dup[0], dict)):
                ctx.count("duplicate_key_texts_loaded_to_something_else")
                continue
            dd, sd = digest(dup[0])
            if dd is not None and dd == da:
                ctx.violation("digest-unchanged-by-key-repeated-in-playbook-text", {"text_tail": text2[-300:], "loaded": repr(dup[0])[:300]})
    ma, ea = model_exclude(a)
    mb, eb = model_exclude(b)
    ctx.count("digest_pairs_compared")
    ctx.seen("edit_labels", label)
    if via_yaml:
        ctx.count("pairs_through_yaml_loader")
    w = {"edit": label, "through_yaml_loader": via_yaml}
    nt = False
    for (m, e, d, s, which) in ((ma, ea, da, sa, "original"), (mb, eb, db, sb, "edited")):
        if (e is None) != (d is not None):
            ctx.violation("exclusion-accepted-or-rejected-against-the-rules", dict(w, play=which, model_error=e, module=("digest" if d is not None else s)))
            return True
    if ea or eb:
        ctx.count("pairs_with_rejected_exclusion")
        return False
    same = typed(ma) == typed(mb)
    if spec["edit_kind"] == "crafted":
        ctx.count("crafted_edits")
        nt = True
    if same:
        if typed(a) != typed(b):
            ctx.count("excluded_only_edits")
        else:
            ctx.count("ineffective_edits")
        if da != db:
            ctx.violation("digest-changed-though-only-excluded-parts-differ", dict(w, serialized=[sa.decode("utf-8", "replace")[:300], sb.decode("utf-8", "replace")[:300]]))
    else:
        ctx.count("effective_edits")
        nt = True
        if da == db:
            mech = "digest-unchanged-by-" + (label.split(":")[1] if ":" in label else label)
            ctx.violation(mech, dict(w, serialized=sa.decode("utf-8", "replace")[:400], original=repr(ma)[:300], edited=repr(mb)[:300]))
    # ---- end to end through the real execute_verification: only the GnuPG binary is replaced by an object that accepts a
    # signature iff it was made for exactly the digest it is handed ("SIG:" + digest).  The original is verified first,
    # then the edited play carrying the ORIGINAL's signature - the order a multi-play playbook is processed in.
    if not same and da is not None and db is not None and isinstance(a.get("vars"), dict) and isinstance(b.get("vars"), dict) and rng.random() < 0.3:
        import base64

        class GResult(object):
            def __init__(self, ok):
                self.valid = ok
                self.status = "signature valid" if ok else "signature bad"

            def __bool__(self):
                return self.valid
            __nonzero__ = __bool__

        class FakeGPG(object):
            def __init__(self, *a_, **k_):
                pass

            def import_keys(self, key):
                class R(object):
                    count = 1
                return R()

            def verify_data(self, fn, data):
                with open(fn, "rb") as fh:
                    return GResult(fh.read() == b"SIG:" + bytes(data))
        saved_gpg, saved_rev = pv.gnupg.GPG, pv.get_play_revocation_list
        pv.gnupg.GPG = FakeGPG
        pv.get_play_revocation_list = lambda content: []
        try:
            sig = base64.b64encode(b"SIG:" + bytes(da)).decode()
            a2, b2 = copy.deepcopy(a), copy.deepcopy(b)
            a2["vars"]["insights_signature"] = sig
            b2["vars"]["insights_signature"] = sig
            if digest(a2)[0] == da and digest(b2)[0] == db:      # the signature itself is among the excluded elements
                ctx.count("end_to_end_signature_checks")
                try:
                    pv.verify(a2)
                except pv.PlaybookVerificationError as ex:
                    ctx.violation("correctly-signed-play-rejected", dict(w, error=str(ex)[:200]))
                try:
                    pv.verify(b2)
                    ctx.violation("edited-play-accepted-with-the-signature-of-the-original", dict(w, original=repr(ma)[:300], edited=repr(mb)[:300]))
                except pv.PlaybookVerificationError:
                    pass
        finally:
            pv.gnupg.GPG, pv.get_play_revocation_list = saved_gpg, saved_rev
    # ---- error clauses and revocation, GnuPG stubbed -------------------------
    if rng.random() < 0.15:
        saved = (pv.execute_verification, pv.get_play_revocation_list)
        try:
            pv.execute_verification = lambda p, sig: (FakeResult(), pv.hash_play(pv.serialize_play(p)))
            ctx.count("error_clauses_checked")
            base = copy.deepcopy(play)
            choice = rng.randrange(8)
            expect_error = True
            revoked = []
            if choice == 0:
                del base["vars"]
                what = "missing-vars"
            elif choice == 1:
                del base["vars"]["insights_signature"]
                what = "missing-signature"
            elif choice == 2:
                del base["vars"]["insights_signature_exclude"]
                what = "missing-exclusion-list"
            elif choice == 3 and rng.random() < 0.5:
                # a two-level request whose parent exists in the play but is neither hosts nor vars
                base["environment"] = {"HTTP_PROXY": "http://proxy", "other": 1}
                base["vars"]["insights_signature_exclude"] = rng.choice(["/hosts,/environment/HTTP_PROXY", "/environment/other", "environment/HTTP_PROXY,/vars/insights_signature"])
                what = "exclusion-of-child-of-other-mapping"
            elif choice == 3 and rng.random() < 0.35:
                # existing top-level keys whose names are parts of 'hosts' / 'vars' (or run across both)
                k_ = rng.choice(["host", "var", "s", "ts", "osts", "tsv", "sva", "h", "hostsvars", "ar"])
                base[k_] = rng.choice(["x", {"child": 1}, ["a"]])
                base["vars"]["insights_signature_exclude"] = rng.choice(["/" + k_, "/hosts,/" + k_, "/" + k_ + "/child"])
                what = "exclusion-outside-hosts-vars"
            elif choice == 3:
                base["vars"]["insights_signature_exclude"] = rng.choice(["/tasks", "/hosts,/name", "/vars/a/b", "/hosts,/", "/vars/insights_signature,/when", "tasks/0", "/hosts/x/y"])
                what = "exclusion-outside-hosts-vars"
            elif choice == 4:
                base["vars"]["insights_signature_exclude"] = "/vars/no_such_child_zz"
                what = "excluded-child-missing"
            elif choice == 5:
                what = "revoked"
                cleaned, _ = model_exclude(base)
                h = hashlib.sha256(pv.serialize_play(pv.exclude_dynamic_elements(base))).hexdigest()
                # entries may share a name (two revoked versions of one playbook) or have none
                names_ = rng.choice([["other%d" % n_ for n_ in range(4)], ["same"] * 4, [None] * 4, ["same", None, "same", "x"]])
                revoked = [{"name": names_[n_], "hash": "%02x" % n_ * 32} for n_ in range(rng.randint(0, 4))]
                pos_ = rng.randint(0, len(revoked))
                revoked.insert(pos_, {"name": rng.choice(["this", "same", None]), "hash": rng.choice([h, h.upper()])})
                for r_ in revoked:
                    if r_["name"] is None:
                        del r_["name"]
                ctx.seen("revoked_entry_positions", "%d of %d" % (pos_ + 1, len(revoked)))
            elif choice == 6:
                base["vars"] = "not a mapping"
                what = "vars-not-a-mapping"
            else:
                what = "valid"
                expect_error = False
                revoked = [{"name": "other", "hash": "11" * 32}]
            pv.get_play_revocation_list = lambda content: revoked
            try:
                pv.verify(base)
                got_error = None
            except pv.PlaybookVerificationError as ex:
                got_error = str(ex)
            except Exception as ex:
                ctx.violation("verification-raised-another-exception-type", {"clause": what, "exc": repr(ex)[:200]})
                return nt
            ctx.seen("error_clauses", what)
            if expect_error and got_error is None:
                ctx.violation("verification-accepted-" + what, {"clause": what, "exclude": repr(base.get("vars") if not isinstance(base.get("vars"), dict) else base["vars"].get("insights_signature_exclude"))})
            if not expect_error and got_error is not None:
                ctx.violation("valid-play-rejected", {"error": got_error})
        finally:
            pv.execute_verification, pv.get_play_revocation_list = saved
    return nt
