"""C05 - the latest implementation for the active context supplies the spec."""
import collections
import itertools
import sys
import types

ID = "C05"
LEVEL = "exploration"
RULE = ("a declaring SpecSet with 1-4 registry points (random flags) and 1-7 implementation classes registered in "
        "random order, each implementing a random subset of the points for one context, an any-of list of contexts, or "
        "through 1-2 levels of helper datasources bound to contexts; every implementation has an outcome (value, "
        "multi-output list, falsy value ([] '' 0 {}), deliberate skip, content error, crash); in half of the definitions the "
        "last 1-2 classes are only defined after a first round of evaluations, then everything is evaluated again; every one of 7 contexts (5 shipped + 2 harness "
        "defined) is tried as the active one with a consumer parser on each point; one evaluation = (definition, "
        "active context); non-trivial = some point has >= 2 candidates for the active context or a mixed-context "
        "declaration; distinct by hash of (definition, active context)")
ASSUMPTIONS = [
    "implementations subclass the declaring SpecSet directly (how every shipped spec module does it)",
    "exactly one execution context is active in the broker",
    "contexts are matched by class identity, not by subclassing",
    "helper datasources are bound to contexts directly (not through other registry points)",
]
REACH = [
    "insights/core/spec_factory.py::RegistryPoint.__call__",
    "insights/core/spec_factory.py::_register_context_handler",
    "insights/core/spec_factory.py::_resolve_registry_points",
    "insights/core/spec_factory.py::_get_ctx_dependencies",
    "insights/core/dr.py::add_ignore",
    "insights/core/dr.py::ComponentType.process",
]
PLAN = {
    "quick": {"shards": 8, "cases": 960, "timeout_s": 600, "min_evaluations": 24000,
              "min_counters": {"points_with_several_candidates": 4000, "overridden_implementations_checked": 4000}},
    "thorough": {"shards": 16, "cases": 30000, "timeout_s": 3000, "min_evaluations": 100000,
                 "min_counters": {"points_with_several_candidates": 20000}},
}
CTX_NAMES = ["HostContext", "HostArchiveContext", "SosArchiveContext", "SerializedArchiveContext", "JDRContext", "CtxA", "CtxB"]
_UID = itertools.count()
_CTX = {}


def contexts():
    if not _CTX:
        from insights.core import context as C
        for n in CTX_NAMES[:5]:
            _CTX[n] = getattr(C, n)
        _CTX["CtxA"] = type("CtxA", (C.ExecutionContext,), {})
        _CTX["CtxB"] = type("CtxB", (C.ExecutionContext,), {})
    return _CTX


def gen_spec_bound(rng):
    """implementations bound to ANOTHER spec (a listing used by per-item specs): they are 'for' every context that other spec is
    implemented for at the moment they are registered - also when that spec gained the context only shortly before"""
    cx, cy = rng.sample(CTX_NAMES, 2)
    return {"kind": "spec_bound", "first_ctx": cx, "late_ctx": cy, "n_late": rng.randint(2, 3),
            "early_dependent": rng.choice(["parser", "datasource"]), "newest_outcome": rng.choice(["ok", "ok", "skip", "boom"])}


def run_spec_bound(spec, ctx):
    from insights.core import dr
    from insights.core.exceptions import SkipComponent
    from insights.core.plugins import datasource, parser
    from insights.core.spec_factory import RegistryPoint, SpecSet
    from vpmon import gen_graph as G
    C = contexts()
    uid = next(_UID)
    modname = "vpmon_c05.sb%d" % uid
    sys.modules[modname] = types.ModuleType(modname)
    LOG, created = [], []

    def mk(tag, deps, outcome="ok"):
        def f(broker):
            LOG.append(tag)
            if outcome == "skip":
                raise SkipComponent("s")
            if outcome == "boom":
                raise RuntimeError("b")
            return tag
        f.__name__ = f.__qualname__ = "%s_%d" % (tag, uid)
        f.__module__ = modname
        d = datasource(*deps)(f)
        created.append(d)
        return d
    try:
        S = type("SB%d" % uid, (SpecSet,), {"__module__": modname, "bar": RegistryPoint(), "foo": RegistryPoint(), "baz": RegistryPoint()})
        created.extend([S.bar, S.foo, S.baz])
        type("A%d" % uid, (S,), {"__module__": modname, "bar": mk("bar_first", [C[spec["first_ctx"]]])})
        # something that depends on the spec is registered while it has one context only
        if spec["early_dependent"] == "datasource":
            type("B%d" % uid, (S,), {"__module__": modname, "baz": mk("baz_on_bar", [S.bar])})
        else:
            def P(v):
                return v
            P.__name__ = P.__qualname__ = "PB%d" % uid
            P.__module__ = modname
            created.append(parser(S.bar)(P))
        # the spec gains an implementation for another context ...
        type("Cc%d" % uid, (S,), {"__module__": modname, "bar": mk("bar_late", [C[spec["late_ctx"]]])})
        # ... and only then implementations bound to it are registered, each overriding the previous one
        tags = []
        for k in range(spec["n_late"]):
            oc = spec["newest_outcome"] if k == spec["n_late"] - 1 else "ok"
            tags.append("foo_%d" % k)
            type("D%d_%d" % (uid, k), (S,), {"__module__": modname, "foo": mk("foo_%d" % k, [S.bar], oc)})
        graph = dr.get_dependency_graph(S.foo)
        for active in (spec["first_ctx"], spec["late_ctx"]):
            del LOG[:]
            br = dr.Broker()
            br[C[active]] = C[active]()
            dr.run(dict(graph), broker=br)
            ran = [t for t in LOG if t in tags]
            ctx.count("spec_bound_evaluations")
            w = {"active": active, "spec_first_implemented_for": spec["first_ctx"], "then_also_for": spec["late_ctx"], "executed": ran,
                 "registration_order": tags}
            if ran != [tags[-1]]:
                ctx.violation("overridden-implementation-executed" if len(ran) > 1 or (ran and ran[0] != tags[-1]) else "latest-implementation-not-executed", w)
            if spec["newest_outcome"] == "ok":
                if br.get(S.foo) != tags[-1]:
                    ctx.violation("spec-value-not-from-latest-implementation", dict(w, got=repr(br.get(S.foo))))
            elif S.foo in br:
                ctx.violation("absent-spec-filled-from-overridden-implementation", dict(w, got=repr(br.get(S.foo))))
        return True
    finally:
        for c_ in created:
            G._unregister(c_)
        sys.modules.pop(modname, None)


def gen_case(rng, tier, idx):
    if idx % 20 == 19:
        return gen_spec_bound(rng)
    npts = rng.randint(1, 4)
    points = [{"multi_output": rng.random() < 0.3, "filterable": rng.random() < 0.3, "raw": rng.random() < 0.2,
               "no_obfuscate": rng.choice([[], ["ip"], ["hostname", "mac"]]), "no_redact": rng.random() < 0.2,
               "prio": rng.choice([0, 0, 1, 5])} for _ in range(npts)]
    hot = rng.sample(CTX_NAMES, rng.randint(1, 3))     # few contexts, so that several implementations share one
    classes = []
    for ci in range(rng.randint(1, 7)):
        members = {}
        for k in range(npts):
            if rng.random() < 0.75:
                form = rng.choice(["one", "one", "any", "via", "via2", "via_any", "tools_and_any"])
                pool = hot if rng.random() < 0.8 else CTX_NAMES
                if form in ("any", "via_any", "tools_and_any"):
                    cs = rng.sample(CTX_NAMES, rng.randint(2, 3)) if len(pool) < 2 else list(set(rng.sample(pool, 2) + [rng.choice(CTX_NAMES)]))
                else:
                    cs = [rng.choice(pool)]
                members[str(k)] = {"form": form, "ctxs": sorted(cs),
                                   "outcome": rng.choice(["ok", "ok", "ok", "ok", "skip", "ce", "boom", "cpe"]),
                                   # a value that is there but falsy (an empty listing, an empty string, 0)
                                   "falsy": rng.choice([None] * 9 + ["", 0, {}, []]),
                                   "helper_outcome": rng.choice(["ok"] * 6 + ["skip", "boom"]), "subtype": rng.random() < 0.2}
        classes.append(members)
    case = {"points": points, "classes": classes}
    if rng.random() < 0.3:
        # a third level: a class derived from an implementation class declares a spec again for a context
        case["grand"] = [{"parent": rng.randrange(len(classes)), "k": rng.randrange(npts), "ctx": rng.choice(hot),
                          "outcome": rng.choice(["ok", "ok", "skip", "ce", "boom"])} for _ in range(rng.randint(1, 2))]
    if rng.random() < 0.5:
        # implementation classes that are only defined after every context was evaluated once (a spec module that
        # is imported later); everything is then evaluated again
        n_late = rng.randint(1, 2)
        if len(classes) > n_late:
            case["late_classes"] = n_late
    return case


def run_case(spec, ctx):
    if spec.get("kind") == "spec_bound":
        return run_spec_bound(spec, ctx)
    from insights.core import dr
    from insights.core.exceptions import CalledProcessError, ContentException, SkipComponent
    from insights.core.plugins import datasource, parser
    from insights.core.spec_factory import RegistryPoint, SpecSet
    from vpmon import gen_graph as G
    C = contexts()
    uid = next(_UID)
    modname = "vpmon_c05.m%d" % uid
    sys.modules[modname] = types.ModuleType(modname)
    LOG = []
    created = []
    any_nt = False
    try:
        npts = len(spec["points"])
        dct = {"__module__": modname}
        for k, p in enumerate(spec["points"]):
            dct["p%d" % k] = RegistryPoint(**p)
        S = type("S%d" % uid, (SpecSet,), dct)
        pts = [getattr(S, "p%d" % k) for k in range(npts)]
        created.extend(pts)
        impls = collections.defaultdict(list)     # k -> [(ctxset, outcome, tag, helper_ok, component)]

        class site_datasource(datasource):
            """a component type derived from datasource (what a site package defines to add its own defaults)"""
            pass

        def mk_ds(tag, outcome, deps, value, subtype=False):
            def f(broker):
                LOG.append(tag)
                if outcome == "skip":
                    raise SkipComponent("s")
                if outcome == "ce":
                    raise ContentException("c")
                if outcome == "cpe":
                    raise CalledProcessError(1, "cmd", "")
                if outcome == "boom":
                    raise RuntimeError("b")
                return value
            f.__name__ = f.__qualname__ = tag
            f.__module__ = modname
            d = (site_datasource if subtype else datasource)(*deps)(f)
            if subtype:
                ctx.count("implementations_declared_with_a_datasource_subtype")
            created.append(d)
            return d
        n_late = spec.get("late_classes", 0)
        phases = [list(range(len(spec["classes"]) - n_late))] + ([list(range(len(spec["classes"]) - n_late, len(spec["classes"])))] if n_late else [])

        def define(ci, members):
            body = {"__module__": modname}
            for ks, m in sorted(members.items()):
                k = int(ks)
                tag = "i%d_%d_%d" % (uid, ci, k)
                cs = [C[n] for n in m["ctxs"]]
                form = m["form"]
                helper_ok = True
                if form == "one":
                    deps = [cs[0]]
                elif form == "any":
                    deps = [list(cs)]
                elif form == "tools_and_any":
                    # two at-least-one groups: one of two context-free helper tools, and one of the contexts
                    t1 = mk_ds("t1_" + tag, "ok", [], "tool")
                    t2 = mk_ds("t2_" + tag, m["helper_outcome"], [], "tool")
                    deps = [[t1, t2], list(cs)] if ci % 2 else [list(cs), [t1, t2]]
                else:
                    hdeps = [list(cs)] if form == "via_any" else [cs[0]]
                    h = mk_ds("h_" + tag, m["helper_outcome"], hdeps, "helper")
                    helper_ok = m["helper_outcome"] == "ok"
                    if form == "via2":
                        h = mk_ds("h2_" + tag, "ok", [h], "helper2")
                    deps = [h]
                value = [tag + "#0", tag + "#1"] if spec["points"][k]["multi_output"] else tag
                if m.get("falsy") is not None:
                    value = [] if spec["points"][k]["multi_output"] else m["falsy"]
                d = mk_ds(tag, m["outcome"], deps, value, subtype=bool(m.get("subtype")))
                body["p%d" % k] = d
                impls[k].append((set(m["ctxs"]), m["outcome"], tag, helper_ok, d, value))
            klass[ci] = type("I%d_%d" % (uid, ci), (S,), body)
        klass = {}
        grand = collections.defaultdict(list)      # k -> [(ctx name, outcome, tag)]
        for ci in phases[0]:
            define(ci, spec["classes"][ci])
        for gi, g in enumerate(spec.get("grand", [])):
            if g["parent"] in klass and g["k"] < npts:
                gtag = "g%d_%d_%d" % (uid, gi, g["k"])
                gd = mk_ds(gtag, g["outcome"], [C[g["ctx"]]], gtag)
                type("G%d_%d" % (uid, gi), (klass[g["parent"]],), {"__module__": modname, "p%d" % g["k"]: gd})
                grand[g["k"]].append((g["ctx"], g["outcome"], gtag))
                ctx.count("third_level_declarations")
        # consumers
        consumers = []
        for k in range(npts):
            def mkp(k=k):
                def P(v):
                    LOG.append(("parser", k, v))
                    return ("parsed", k, v)
                P.__name__ = P.__qualname__ = "P%d_%d" % (uid, k)
                P.__module__ = modname
                return P
            c = parser(pts[k])(mkp())
            created.append(c)
            consumers.append(c)

        def evaluate_all(phase):
            nonlocal any_nt
            # flags are copied to every implementation and its delegate
            for k in range(npts):
                for (_, _, tag, _, d, _) in impls[k]:
                    for attr, val in spec["points"][k].items():
                        if getattr(d, attr, "<unset>") != val or getattr(dr.get_delegate(d), attr, "<unset>") != val:
                            ctx.violation("spec-flags-not-copied-to-implementation", {"flag": attr, "point": k, "impl": tag})
                    ctx.count("flag_sets_checked")
            graph = {}
            for c in consumers:
                graph.update(dr.get_dependency_graph(c))
            for active in CTX_NAMES:
                del LOG[:]
                br = dr.Broker()
                br[C[active]] = C[active]()
                raised = None
                try:
                    dr.run(dict(graph), broker=br)
                except Exception as ex:
                    raised = ex
                case = {"definition": spec, "active": active, "evaluation": phase}
                nt = False
                if raised is not None:
                    ctx.violation("evaluation-raised", {"active": active, "exc": repr(raised)})
                for k in range(npts):
                    cands = [x for x in impls[k] if active in x[0]]
                    mine = set(x[2] for x in impls[k])
                    invoked = [t for t in LOG if isinstance(t, str) and t in mine]
                    got_parser = [t[2] for t in LOG if isinstance(t, tuple) and t[1] == k]
                    if len(cands) >= 2:
                        nt = True
                        ctx.count("points_with_several_candidates")
                    if any(len(x[0]) > 1 for x in impls[k]):
                        nt = True
                    ginv = [g for g in grand[k] if g[2] in LOG]
                    if ginv:
                        # the unchanged tree does not wire a third-level declaration to the spec at all (it never runs).  A tree
                        # that does wire it must treat it as the newest implementation: nothing it overrides runs, other
                        # contexts are not served, and a declaration that yields nothing leaves the spec absent
                        g = ginv[-1]
                        if g[0] != active:
                            ctx.violation("implementation-for-other-context-executed", {"active": active, "point": k, "impl": g[2], "declared": [g[0]]})
                        elif invoked or len(ginv) > 1:
                            ctx.violation("overridden-implementation-executed", {"active": active, "point": k, "invoked": invoked + [x[2] for x in ginv],
                                                                                  "newest": g[2], "note": "third-level declaration"})
                        elif g[1] == "ok" and br.get(pts[k]) != g[2]:
                            ctx.violation("spec-value-not-from-latest-implementation", {"active": active, "point": k, "got": repr(br.get(pts[k])), "expected": g[2]})
                        elif g[1] != "ok" and pts[k] in br:
                            ctx.violation("absent-spec-filled-from-overridden-implementation", {"active": active, "point": k, "got": repr(br.get(pts[k]))})
                        continue
                    for x in impls[k]:
                        if active not in x[0] and x[2] in invoked:
                            ctx.violation("implementation-for-other-context-executed", {"active": active, "point": k, "impl": x[2], "declared": sorted(x[0])})
                    if not cands:
                        if pts[k] in br or invoked:
                            ctx.violation("spec-filled-without-implementation-for-active-context", {"active": active, "point": k, "invoked": invoked})
                        ctx.count("points_without_candidate")
                        continue
                    w = cands[-1]
                    ctx.count("overridden_implementations_checked", len(cands) - 1)
                    exp_inv = [w[2]] if w[3] else []
                    if invoked != exp_inv:
                        extra = [t for t in invoked if t != w[2]]
                        mech = "overridden-implementation-executed" if extra else "latest-implementation-not-executed"
                        ctx.violation(mech, {"active": active, "point": k, "invoked": invoked, "expected": exp_inv,
                                             "registration_order": [(x[2], sorted(x[0]), x[1]) for x in impls[k]]})
                    produced = w[3] and w[1] == "ok"
                    if produced:
                        if br.get(pts[k]) != w[5]:
                            ctx.violation("spec-value-not-from-latest-implementation", {"active": active, "point": k, "got": repr(br.get(pts[k])), "expected": w[5]})
                        expp = list(w[5]) if isinstance(w[5], list) else [w[5]]
                        if got_parser != expp:
                            ctx.violation("parser-did-not-receive-the-latest-implementation-value", {"active": active, "point": k, "got": got_parser, "expected": expp})
                        ctx.count("winner_values_compared")
                        if not w[5]:
                            ctx.count("winner_values_that_are_falsy")
                    else:
                        if pts[k] in br:
                            ctx.violation("absent-spec-filled-from-overridden-implementation", {"active": active, "point": k, "got": repr(br.get(pts[k])),
                                                                                              "registration_order": [(x[2], sorted(x[0]), x[1]) for x in impls[k]]})
                        if got_parser:
                            ctx.violation("parser-ran-on-absent-spec", {"active": active, "point": k})
                        ctx.count("winner_yielded_nothing")
                ctx.note_case(case, nt)
                ctx.seen("active_contexts", active)
                if nt and len(ctx.samples) < 3:
                    ctx.sample(case)
                any_nt = any_nt or nt
        evaluate_all(1)
        for late in phases[1:]:
            for ci in late:
                define(ci, spec["classes"][ci])
            ctx.count("late_registrations_followed_by_second_evaluation")
            evaluate_all(2)
        ctx.evaluations -= 1
        return False
    finally:
        for c in created:
            G._unregister(c)
        sys.modules.pop(modname, None)
