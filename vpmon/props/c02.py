"""C02 - fires iff requirements met; arguments bind in declaration order."""
from vpmon import engine_case as E
from vpmon import gen_graph as G

ID = "C02"
LEVEL = "exploration"
RULE = ("same generator as C01; the reference model (written from the statement and the ComponentType/parser/rule "
        "docstrings) predicts per node: invoked or not, the exact positional arguments, the missing-dependency report; "
        "non-trivial = the graph has an at-least-one group or an optional edge AND at least one dependency that produced "
        "no value; distinct by hash of the full case spec; a share of the cases has the broker of a loaded archive "
        "(SerializedArchiveContext + pre-loaded values), is evaluated a second time after implementations / dependencies were "
        "registered late, or switches components off through insights.apply_default_enabled + apply_configs after a first "
        "evaluation with everything enabled")
ASSUMPTIONS = [
    "datasource bodies are documented to receive the broker, parser bodies the value (or each list element) of their first required dependency; for those two kinds the binding clause is checked against that convention",
    "enabled/disabled is set with dr.set_enabled and read back with dr.is_enabled",
    "None is never used as an ordinary component value; a rule whose requirements are missing has its skip response as its value",
    "the parser decorator does not accept optional dependencies (its constructor does not forward them), none are declared on parsers",
]
REACH = [
    "insights/core/dr.py::ComponentType.invoke",
    "insights/core/dr.py::ComponentType.get_missing_dependencies",
    "insights/core/dr.py::ComponentType.process",
    "insights/core/plugins.py::rule.process",
    "insights/core/plugins.py::parser.invoke",
    "insights/core/plugins.py::datasource.invoke",
    "insights/core/plugins.py::PluginType.invoke",
    "insights/core/plugins.py::_make_skip.__init__",
]
PLAN = {
    "quick": {"shards": 8, "cases": 2000, "timeout_s": 600, "min_evaluations": 8000,
              "min_counters": {"nodes_invoked": 16000, "nodes_missing": 2400, "args_compared": 16000}},
    "thorough": {"shards": 16, "cases": 20000, "timeout_s": 3000, "min_evaluations": 30000,
                 "min_counters": {"nodes_invoked": 100000}},
}


def gen_case(rng, tier, idx):
    case = E.gen_engine_case(rng, tier, fault_rate=0.2)
    if rng.random() < 0.15 and not E.has_second_phase(case):
        case["enable_via_config"] = rng.choice(["default-off", "default-on"])
        case["config_before_first_evaluation"] = rng.random() < 0.5
    return case


def run_config_case(spec, ctx):
    """enable/disable through the configuration path (insights.apply_default_enabled + apply_configs) applied AFTER a
    first evaluation with everything enabled - the state a long-running process or a test session is in"""
    import copy
    import insights
    from insights.core import dr
    all_on = copy.deepcopy(spec["graph"])
    for nd in all_on["nodes"]:
        nd["enabled"] = True
    saved, snapshot = dr.ENABLED, dict(dr.ENABLED)
    first = spec.get("config_before_first_evaluation")
    if first:
        # the usual start-up order: components are loaded, the configuration is applied, then the first evaluation runs -
        # no component has been looked at before, so none has an entry of its own in dr.ENABLED
        group = ("grp_%s" % spec["graph"].get("tag", "x")) if spec["entry"]["form"] == "group" else None
        b0 = G.build(all_on, group=group)

        class R1(object):
            built = b0
        r1 = R1()
        ctx.count("configurations_applied_before_the_first_evaluation")
    else:
        r1 = E.execute(spec, spec=all_on)
    try:
        if not first:
            for mech, wit in E.oracle_c02(r1):
                ctx.violation(mech, dict(wit, evaluation="before the configuration was applied"))
        b = r1.built
        default = spec["enable_via_config"] == "default-off"
        nodes = spec["graph"]["nodes"]
        if default:
            cfg = {"default_component_enabled": False,
                   "configs": [{"name": dr.get_name(b.comps[i]), "enabled": True} for i, nd in enumerate(nodes) if nd["enabled"]]}
        else:
            cfg = {"default_component_enabled": True,
                   "configs": [{"name": dr.get_name(b.comps[i]), "enabled": False} for i, nd in enumerate(nodes) if not nd["enabled"]]}
        insights.apply_default_enabled(cfg)
        insights.apply_configs(cfg)
        if not first:
            ctx.count("configurations_applied_after_a_first_evaluation")
        r2 = E.execute(spec, built=b, spec=spec["graph"])
        for mech, wit in E.oracle_c02(r2):
            ctx.violation(mech, dict(wit, evaluation="after apply_default_enabled/apply_configs", default_component_enabled=not default))
        ctx.count("nodes_disabled_through_configuration", sum(1 for nd in nodes if not nd["enabled"]))
        return any(not nd["enabled"] for nd in nodes)
    finally:
        saved.clear()
        saved.update(snapshot)
        dr.ENABLED = saved
        r1.built.cleanup()


def run_case(spec, ctx):
    if spec.get("enable_via_config"):
        return run_config_case(spec, ctx)
    r = E.execute(spec)
    try:
        for mech, wit in E.oracle_c02(r):
            ctx.violation(mech, wit)
        if E.has_second_phase(spec):
            for mech, wit in E.oracle_c02(E.second_phase(r)):
                ctx.violation(mech, dict(wit, evaluation=2))
            ctx.count("second_evaluations_after_late_registration")
        nodes = spec["graph"]["nodes"]
        has_group_or_opt = False
        has_absent = False
        for i, nd in enumerate(nodes):
            m = r.model[i]
            ctx.count("nodes_" + m["status"])
            ctx.count("kind_" + nd["kind"])
            if m["status"] == "invoked":
                ctx.count("args_compared", sum(len(a) for a in m["invocations"] if isinstance(a, tuple)))
                if nd["kind"] != "point" and any(not r.model[d]["present"] for d in G.flat_deps(nd)):
                    has_absent = True
                    ctx.count("invoked_with_a_None_argument")
            if nd["kind"] != "point" and (nd["opt"] or any(isinstance(w, list) for w in nd["written"])):
                has_group_or_opt = True
            if m["status"] == "missing":
                has_absent = True
        return has_group_or_opt and has_absent
    finally:
        r.built.cleanup()
