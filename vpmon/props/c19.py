"""C19 - parser combinators implement ordered-choice PEG semantics."""
import itertools
import json
import re
import signal

ID = "C19"
LEVEL = "exploration"
RULE = ("(peg) random terms over Char, InSet, AnyChar, String(min, escape characters), Literal(value, ignore_case), EOF, Sequence, Choice, "
        "Many(lower), Until, Opt(default), KeepLeft, KeepRight, FollowedBy, NotFollowedBy, Map(total or Backtrack), Lift, Wrapper, "
        "PosMarker (line/column of the match), sep_by, and recursive rules through Forward (the rule's own uses stand behind a "
        "consuming parser) (depth <= 4 quick / 5 thorough; repetition only over sub-terms the reference proves consuming) are built twice - "
        "with the constructors and with the operators on fresh objects - and run through parser(input) and "
        "parser.process(0, data, Context) on EVERY string over a three-letter alphabet ({a,b,A}, {a,b,backslash} or {a,b,newline}) "
        "up to length 5 (364; thorough 6: 1093), the same parser object for all inputs; accept/reject, value and end position must equal a 60-line PEG interpreter written "
        "from Ford's semantics; (json) the shipped JSON grammar vs json.loads on its documented subset; (tag) the tag "
        "language vs direct evaluation of random boolean ASTs (minimal and redundant parentheses, both spellings of or, "
        "quoted/bare tags, regexes) on every subset of the tag universe; one evaluation = one grammar over all inputs / "
        "one document / one expression over all tag sets; non-trivial = the grammar accepts some and rejects some input; "
        "distinct by hash of the term / text")
ASSUMPTIONS = [
    "mapped and lifted functions are total or raise Backtrack; repetition bodies always consume (non-consuming bodies make Many loop by design)",
    "JSON: no \\u escapes, no exponents, strings without quotes/backslashes, no empty string literal and no blank before ':' (the module calls itself 'primitive json parsing'; rejecting those is counted, not judged)",
    "tag language: one optional '!' per factor (a negation under a negation is parenthesised); bare regexes are followed by white space, as documented",
    "a grammar whose parses over all inputs of <= 6 characters take longer than 60 s in total is reported as non-termination (a watchdog thread records the witness and ends the shard, because the library swallows every exception raised inside a parse)",
]
REACH = [
    "insights/parsr/__init__.py::Sequence.process",
    "insights/parsr/__init__.py::Choice.process",
    "insights/parsr/__init__.py::Many.process",
    "insights/parsr/__init__.py::Until.process",
    "insights/parsr/__init__.py::Opt.process",
    "insights/parsr/__init__.py::FollowedBy.process",
    "insights/parsr/__init__.py::NotFollowedBy.process",
    "insights/parsr/__init__.py::KeepLeft.process",
    "insights/parsr/__init__.py::KeepRight.process",
    "insights/parsr/__init__.py::Map.process",
    "insights/parsr/__init__.py::Lift.process",
    "insights/parsr/__init__.py::Literal.process",
    "insights/parsr/__init__.py::String.process",
    "insights/parsr/__init__.py::Parser.sep_by",
    "insights/parsr/__init__.py::Forward.process",
    "insights/parsr/__init__.py::PosMarker.process",
    "insights/parsr/__init__.py::Wrapper.process",
    "insights/parsr/__init__.py::Parser.__call__",
    "insights/core/taglang.py::oper",
    "insights/core/taglang.py::negate",
]
PLAN = {
    "quick": {"shards": 8, "cases": 2100, "timeout_s": 900, "min_evaluations": 12000,
              "min_counters": {"grammars_compared": 4000, "parses_compared": 5000000, "json_documents": 2000, "tag_expressions": 2000, "tag_evaluations": 100000}},
    "thorough": {"shards": 16, "cases": 12000, "timeout_s": 3300, "min_evaluations": 150000,
                 "min_counters": {"grammars_compared": 50000}},
}
FAIL = ("<fail>",)
TAGS = ["a", "b", "c", "net", "x-y", "t.1", "network"]
_INPUTS = {}


class Hang(Exception):
    pass


def inputs(maxlen, alpha="abA"):
    if (alpha, maxlen) not in _INPUTS:
        out = [""]
        for n in range(1, maxlen + 1):
            out += ["".join(x) for x in itertools.product(alpha, repeat=n)]
        _INPUTS[(alpha, maxlen)] = out
    return _INPUTS[(alpha, maxlen)]


def directed(tier):
    return [{"kind": "json", "value": [0, 1], "indent": None, "seps": [", ", ": "]},
            {"kind": "json", "value": {"k": [False, "x"], "e": [{}, {"a": None}], "z": [None]}, "indent": 2, "seps": [",", ": "]}]


# ---- generation -----------------------------------------------------------------
def gen_term(rng, depth, alpha="abA", rec=None):
    """rec: None = a recursive rule may be opened here; False = inside one (no nesting)."""
    prims = ["char", "inset", "string", "literal", "eof", "anychar"]
    comb = ["seq", "choice", "many", "until", "opt", "kl", "kr", "fb", "nfb", "map", "lift", "wrap", "posmark", "sepby"]
    if depth == 0 or rng.random() < 0.25:
        k = rng.choice(prims)
        if k == "char":
            return ["char", rng.choice(alpha)]
        if k == "inset":
            return ["inset", "".join(rng.sample(alpha, rng.randint(1, 2)))]
        if k == "string":
            t = ["string", "".join(rng.sample(alpha, rng.randint(1, 2))), rng.randint(0, 2)]
            if "\\" in alpha and rng.random() < 0.7:
                t.append("".join(rng.sample(alpha, rng.randint(1, 2))))
            return t
        if k == "literal":
            return ["literal", "".join(rng.choice(alpha + "B") for _ in range(rng.randint(1, 2))), rng.random() < 0.5, rng.choice([None, 7, 0, ""])]
        if k == "eof":
            return ["eof"]
        return ["anychar"]
    if rec is None and depth >= 2 and rng.random() < 0.18:
        return gen_rec(rng, depth, alpha)
    k = rng.choice(comb)
    g = lambda: gen_term(rng, depth - 1, alpha, rec)
    if k == "seq":
        return ["seq", [g() for _ in range(rng.randint(2, 3))]]
    if k == "choice":
        return ["choice", [g() for _ in range(rng.randint(2, 3))]]
    if k == "many":
        return ["many", g(), rng.randint(0, 2)]
    if k == "until":
        return ["until", g(), g()]
    if k == "opt":
        return ["opt", g(), rng.choice([None, "D", 0])]
    if k in ("kl", "kr", "fb", "nfb", "sepby"):
        return [k, g(), g()]
    if k in ("wrap", "posmark"):
        return [k, g()]
    if k == "map":
        return ["map", g(), rng.choice(["repr", "bt_if_a", "falsy"])]
    return ["lift", [g() for _ in range(rng.randint(1, 2))]]


def gen_rec(rng, depth, alpha):
    """A recursive rule (Forward): every use of the rule itself stands behind a parser that consumes one character, so
    the rule is not left recursive."""
    lead = rng.choice([["char", rng.choice(alpha)], ["inset", "".join(rng.sample(alpha, 2))], ["anychar"]])
    base = gen_term(rng, max(0, depth - 2), alpha, False)
    tail = gen_term(rng, 0, alpha, False)
    ref_ = ["ref"]
    shape = rng.randrange(7)
    if shape == 0:
        step = ["seq", [lead, ref_, tail]]
    elif shape == 1:
        step = ["kr", lead, ref_]
    elif shape == 2:
        step = ["kl", ["seq", [lead, ref_]], tail]
    elif shape == 3:
        step = ["lift", [lead, ["opt", ref_, None]]]
    elif shape == 4:
        step = ["seq", [lead, ["many", ref_, rng.randint(0, 1)]]]
    elif shape == 5:
        step = ["seq", [lead, ["choice", [ref_, tail]]]]
    else:
        step = ["map", ["seq", [lead, ref_]], rng.choice(["repr", "bt_if_a"])]
    alts = [step, base]
    if rng.random() < 0.4:
        alts.reverse()
    body = ["choice", alts] if shape not in (3, 4) or rng.random() < 0.5 else step
    return ["rec", body]


def gen_bool(rng, d):
    if d == 0 or rng.random() < 0.3:
        return ["tag", rng.choice(TAGS[:6])] if rng.random() < 0.85 else ["re", rng.choice(["^n", "e", "y$", "[ab]", "t\\.1", "^x-", "net|x-", "^(net|t)", "^[ab]{1,1}$", "(b)", "c|^a$", "x&y|^b", "t.1,|work"])]
    k = rng.choice(["and", "or", "not"])
    if k == "not":
        return ["not", gen_bool(rng, d - 1)]
    return [k, gen_bool(rng, d - 1), gen_bool(rng, d - 1)]


def gen_json(rng, d):
    r = rng.random()
    if d == 0 or r < 0.4:
        return rng.choice([0, 1, -5, 3.5, -0.25, "abc", "x y", "a:b,c", True, False, None, 100000, 0.0, "0", "null", "[1]", "{}",
                           2 ** 53 + 1, -(2 ** 53) - 1, 9007199254740993, 10 ** 20 + 7, 10 ** 400 + 1])
    if r < 0.7:
        return [gen_json(rng, d - 1) for _ in range(rng.randint(0, 3))]
    return dict(("k%d" % i if rng.random() < 0.7 else "key %d" % i, gen_json(rng, d - 1)) for i in range(rng.randint(0, 3)))


def gen_case(rng, tier, idx):
    m = idx % 7
    if m < 5:
        alpha = rng.choice(["abA", "abA", "ab\\", "ab\n"])
        return {"kind": "peg", "term": gen_term(rng, 4 if tier == "quick" else rng.choice([4, 5]), alpha), "alpha": alpha,
                "maxlen": 5 if tier == "quick" else rng.choice([5, 5, 6])}
    if m == 5:
        if rng.random() < 0.15:
            # a long, shallow document: hundreds of scalars, containers only behind them
            scal = lambda: rng.choice([True, False, None, True, False, None, 0, 17, -2.5, "s", "a b"])
            n = rng.randint(60, 400)
            v = [scal() for _ in range(n)] + [[1], {"k": [2, {"z": None}]}, [[]]]
            if rng.random() < 0.4:
                v = dict(("k%d" % i, x) for i, x in enumerate(v))
            if rng.random() < 0.3:
                v = {"head": v, "tail": [v[:3] if isinstance(v, list) else [1], {"q": [True]}]}
            return {"kind": "json", "value": v, "indent": rng.choice([None, None, 1]), "seps": rng.choice([[",", ":"], [", ", ": "]]), "long": True}
        return {"kind": "json", "value": gen_json(rng, 3), "indent": rng.choice([None, 1, 2, 4]), "seps": rng.choice([[",", ":"], [", ", ": "], [",", ": "], [" , ", ": "]])}
    return {"kind": "tag", "ast": gen_bool(rng, 3), "style": rng.getrandbits(30)}


# ---- reference PEG interpreter ------------------------------------------------
def norm(v):
    """Values as plain data: a Mark (PosMarker) becomes ("MARK", line, column, value)."""
    if isinstance(v, list):
        return [norm(x) for x in v]
    if isinstance(v, tuple):
        return tuple(norm(x) for x in v)
    if type(v).__name__ == "Mark" and hasattr(v, "lineno"):
        return ("MARK", v.lineno, v.col, norm(v.value))
    return v


def fmap(name):
    from insights import parsr as P
    if name == "repr":
        return lambda v: ("M", repr(norm(v)))
    if name == "falsy":
        return lambda v: 0 if v else []

    def f(v):
        if "a" in repr(norm(v)):
            raise P.Backtrack("no")
        return ("N", repr(norm(v)))
    return f


def flift(*a):
    return ("L",) + tuple(repr(norm(x)) for x in a)


def ref(t, s, pos, Backtrack, env=None):
    k = t[0]
    c = s[pos] if pos < len(s) else None
    go = lambda x, p: ref(x, s, p, Backtrack, env)
    if k == "char":
        return (pos + 1, t[1]) if c == t[1] else FAIL
    if k == "inset":
        return (pos + 1, c) if c is not None and c in t[1] else FAIL
    if k == "anychar":
        return (pos + 1, c) if c is not None else FAIL
    if k == "eof":
        return (pos, None) if c is None else FAIL
    if k == "string":
        esc = t[3] if len(t) > 3 else ""
        p, out = pos, []
        while p < len(s):
            if s[p] == "\\" and p + 1 < len(s) and s[p + 1] in esc:
                out.append(s[p + 1])                 # an escaped character stands for itself
                p += 2
            elif s[p] in t[1]:
                out.append(s[p])
                p += 1
            else:
                break
        return (p, "".join(out)) if len(out) >= t[2] else FAIL
    if k == "literal":
        lit, ic, val = t[1], t[2], t[3]
        seg = s[pos:pos + len(lit)]
        if ic:
            if len(seg) == len(lit) and seg.lower() == lit.lower():
                return (pos + len(lit), seg if val is None else val)
            return FAIL
        if seg == lit:
            return (pos + len(lit), lit if val is None else val)
        return FAIL
    if k in ("seq", "lift"):
        out = []
        for x in t[1]:
            r = go(x, pos)
            if r is FAIL:
                return FAIL
            pos, v = r
            out.append(v)
        return (pos, out) if k == "seq" else (pos, flift(*out))
    if k == "choice":
        for x in t[1]:
            r = go(x, pos)
            if r is not FAIL:
                return r
        return FAIL
    if k == "many":
        out = []
        while True:
            r = go(t[1], pos)
            if r is FAIL:
                break
            if r[0] == pos:
                raise RuntimeError("nonconsuming")
            pos, v = r
            out.append(v)
        return (pos, out) if len(out) >= t[2] else FAIL
    if k == "until":
        out = []
        while True:
            if go(t[2], pos) is not FAIL:
                break
            r = go(t[1], pos)
            if r is FAIL:
                break
            if r[0] == pos:
                raise RuntimeError("nonconsuming")
            pos, v = r
            out.append(v)
        return (pos, out)
    if k == "opt":
        r = go(t[1], pos)
        return r if r is not FAIL else (pos, t[2])
    if k in ("kl", "kr"):
        r1 = go(t[1], pos)
        if r1 is FAIL:
            return FAIL
        r2 = go(t[2], r1[0])
        if r2 is FAIL:
            return FAIL
        return (r2[0], r1[1] if k == "kl" else r2[1])
    if k in ("fb", "nfb"):
        r1 = go(t[1], pos)
        if r1 is FAIL:
            return FAIL
        follows = go(t[2], r1[0]) is not FAIL
        return r1 if follows == (k == "fb") else FAIL
    if k == "map":
        r = go(t[1], pos)
        if r is FAIL:
            return FAIL
        try:
            return (r[0], fmap(t[2])(r[1]))
        except Backtrack:
            return FAIL
    if k == "wrap":
        return go(t[1], pos)
    if k == "posmark":
        r = go(t[1], pos)
        if r is FAIL:
            return FAIL
        before = s[:pos]
        return (r[0], ("MARK", before.count("\n") + 1, len(before) - (before.rfind("\n") + 1) + 1, r[1]))
    if k == "sepby":
        # "zero or more instances of the parser separated by instances of sep": ( elem ( sep elem )* )?  - always succeeds
        r = go(t[1], pos)
        if r is FAIL:
            return (pos, [])
        pos, out = r[0], [r[1]]
        while True:
            r1 = go(t[2], pos)
            if r1 is FAIL:
                break
            r2 = go(t[1], r1[0])
            if r2 is FAIL:
                break
            if r2[0] == pos:
                raise RuntimeError("nonconsuming")
            pos = r2[0]
            out.append(r2[1])
        return (pos, out)
    if k == "rec":
        return ref(t[1], s, pos, Backtrack, t[1])
    if k == "ref":
        return ref(env, s, pos, Backtrack, env)
    raise ValueError(k)


def build(t, ops, fwd=None):
    from insights import parsr as P
    k = t[0]
    if k == "char":
        return P.Char(t[1])
    if k == "inset":
        return P.InSet(t[1])
    if k == "anychar":
        return P.AnyChar if not ops else type(P.AnyChar)()
    if k == "eof":
        return P.EOF if not ops else type(P.EOF)()
    if k == "string":
        if len(t) > 3:
            return P.String(t[1], t[3], min_length=t[2]) if ops else P.String(t[1], echars=t[3], min_length=t[2])
        return P.String(t[1], min_length=t[2])
    if k == "literal":
        return P.Literal(t[1], ignore_case=t[2]) if t[3] is None else P.Literal(t[1], value=t[3], ignore_case=t[2])
    if k == "seq":
        cs = [build(x, ops, fwd) for x in t[1]]
        if not ops:
            return P.Sequence(cs)
        first = P.Wrapper(cs[0]) if isinstance(cs[0], P.Sequence) else cs[0]
        p = first + cs[1]
        for c in cs[2:]:
            p = p + c
        return p
    if k == "choice":
        cs = [build(x, ops, fwd) for x in t[1]]
        if not ops:
            return P.Choice(cs)
        first = P.Wrapper(cs[0]) if isinstance(cs[0], P.Choice) else cs[0]
        p = first | cs[1]
        for c in cs[2:]:
            p = p | c
        return p
    if k == "many":
        return P.Many(build(t[1], ops, fwd), lower=t[2])
    if k == "until":
        a, b = build(t[1], ops, fwd), build(t[2], ops, fwd)
        return a.until(b) if ops else P.Until(a, b)
    if k == "opt":
        return P.Opt(build(t[1], ops, fwd), t[2])
    if k in ("kl", "kr", "fb", "nfb"):
        a, b = build(t[1], ops, fwd), build(t[2], ops, fwd)
        if ops:
            return {"kl": lambda: a << b, "kr": lambda: a >> b, "fb": lambda: a & b, "nfb": lambda: a / b}[k]()
        return {"kl": P.KeepLeft, "kr": P.KeepRight, "fb": P.FollowedBy, "nfb": P.NotFollowedBy}[k](a, b)
    if k == "map":
        c = build(t[1], ops, fwd)
        return c.map(fmap(t[2])) if ops else P.Map(c, fmap(t[2]))
    if k == "lift":
        l = P.Lift(flift)
        for x in t[1]:
            l = l * build(x, ops, fwd)
        return l
    if k == "wrap":
        return P.Wrapper(build(t[1], ops, fwd))
    if k == "posmark":
        return P.PosMarker(build(t[1], ops, fwd))
    if k == "sepby":
        return build(t[1], ops, fwd).sep_by(build(t[2], ops, fwd))
    if k == "rec":
        f = P.Forward()
        f <= build(t[1], ops, f)
        return f
    if k == "ref":
        return fwd
    raise ValueError(k)


def term_kinds(t, out):
    out.add(t[0] if not (t[0] == "string" and len(t) > 3) else "string+escapes")
    for x in t[1:]:
        if isinstance(x, list) and x and isinstance(x[0], str) and x[0] in KINDS:
            term_kinds(x, out)
        elif isinstance(x, list):
            for y in x:
                if isinstance(y, list) and y and isinstance(y[0], str) and y[0] in KINDS:
                    term_kinds(y, out)
    return out


KINDS = {"char", "inset", "anychar", "eof", "string", "literal", "seq", "choice", "many", "until", "opt", "kl", "kr", "fb", "nfb", "map", "lift",
         "wrap", "posmark", "sepby", "rec", "ref"}


def _alarm(signum, frame):
    raise Hang()


def run_peg(spec, ctx):
    from insights import parsr as P
    t = spec["term"]
    ins = inputs(spec["maxlen"], spec.get("alpha", "abA"))
    try:
        expected = [ref(t, s, 0, P.Backtrack) for s in ins]
    except RuntimeError:
        ctx.count("grammars_skipped_nonconsuming_repetition")
        return None
    except RecursionError:
        return None
    parsers = [("constructors", build(t, False)), ("operators", build(t, True))]
    acc = sum(1 for e in expected if e is not FAIL)
    ctx.count("grammars_compared")
    for kk in term_kinds(t, set()) & {"rec", "sepby", "posmark", "wrap", "string+escapes"}:
        ctx.count("grammars_with_" + kk)
    state = {"how": None, "input": None}
    with ctx.hang_guard(60, "parser-did-not-terminate", lambda: {"term": t, "input": state["input"], "built_with": state["how"]}):
        for how, p in parsers:
            state["how"] = how
            for s, exp in zip(ins, expected):
                state["input"] = s
                data = list(s) + [None]
                c = P.Context(data)
                try:
                    got = p.process(0, data, c)
                    got = (got[0], norm(got[1]))
                except Exception:
                    got = FAIL
                try:
                    val = ("ok", norm(p(s)))
                except Exception:
                    val = FAIL
                ctx.count("parses_compared", 2)
                bad = None
                if (exp is FAIL) != (got is FAIL):
                    bad = "accepts-what-peg-semantics-reject" if exp is FAIL else "rejects-what-peg-semantics-accept"
                elif exp is not FAIL and exp[0] != got[0]:
                    bad = "consumes-a-different-amount-of-input"
                elif exp is not FAIL and (exp[1] != got[1] or repr(exp[1]) != repr(got[1])):
                    bad = "returns-a-different-value"
                elif (val is FAIL) != (exp is FAIL) or (val is not FAIL and repr(val[1]) != repr(exp[1])):
                    bad = "call-form-differs-from-process"
                if bad:
                    ctx.violation(bad, {"term": t, "input": s, "built_with": how, "peg": (list(exp) if exp is not FAIL else "reject"),
                                        "process": (repr(got) if got is not FAIL else "reject"), "call": (repr(val[1]) if val is not FAIL else "reject")})
                    return True
    return 0 < acc < len(ins)


# ---- shipped grammars ------------------------------------------------------------
def run_json(spec, ctx):
    from insights.parsr.examples import json_parser
    v = spec["value"]
    text = json.dumps(v, indent=spec["indent"], separators=tuple(spec["seps"]))
    ctx.count("json_documents")
    if spec.get("long"):
        ctx.count("json_long_documents")
    if '""' in text or re.search(r'"\s+:', text):
        ctx.count("json_outside_documented_subset")
        return None
    try:
        got = json_parser.loads(text)
    except Exception as ex:
        ctx.violation("json-grammar-rejects-document-of-its-subset", {"text": text[:300], "error": str(ex)[:200]})
        return True
    want = json.loads(text)
    if got != want or repr(got) != repr(want):
        ctx.violation("json-grammar-returns-wrong-value", {"text": text[:300], "got": repr(got)[:300], "json.loads": repr(want)[:300]})
    # near misses of the same document: a separator too many or too few is not JSON for the reference decoder either
    import random
    rng_ = random.Random(len(text) * 7919 + text.count(","))
    variants = []
    for closer in "]}":
        for m_ in re.finditer(re.escape(closer), text):
            j = m_.start()
            k = j - 1
            while k >= 0 and text[k] in " \n":
                k -= 1
            if k >= 0 and text[k] not in "[{,":
                variants.append(text[:j] + "," + text[j:])
    for m_ in re.finditer(",", text):
        variants.append(text[:m_.start()] + " " + text[m_.end():])
    leading = []
    for m_ in re.finditer(r"[\[{]", text):                # a separator before the first element
        k = m_.end()
        while k < len(text) and text[k] in " \n":
            k += 1
        if k < len(text) and text[k] not in "]}":
            leading.append(text[:m_.end()] + "," + text[m_.end():])
    for vtxt in rng_.sample(variants, min(3, len(variants))) + rng_.sample(leading, min(1, len(leading))):
        try:
            json.loads(vtxt)
            continue                       # (a comma inside a string)
        except ValueError:
            pass
        ctx.count("json_near_misses_tried")
        try:
            g2 = json_parser.loads(vtxt)
        except Exception:
            continue
        ctx.violation("json-grammar-accepts-what-the-reference-decoder-rejects", {"text": vtxt[:300], "value": repr(g2)[:200]})
    return isinstance(v, (list, dict)) and len(v) > 0


PREC = {"or": 1, "and": 2, "not": 3, "tag": 4, "re": 4}


def render_bool(t, rng, parent=0):
    k = t[0]

    def ws():
        return " " * rng.randint(0, 2)
    if k == "tag":
        return t[1] if rng.random() < 0.7 else rng.choice(['"%s"', "'%s'"]) % t[1]
    if k == "re":
        return "/" + (t[1] + " " if rng.random() < 0.5 else rng.choice(["'%s'", '"%s"']) % t[1])
    if k == "not":
        inner = render_bool(t[1], rng, 3)
        if inner.lstrip().startswith("!"):
            inner = "(" + inner + ")"
        s = "!" + inner
    else:
        op = {"and": "&", "or": rng.choice(["|", ","])}[k]
        s = render_bool(t[1], rng, PREC[k]) + ws() + op + ws() + render_bool(t[2], rng, PREC[k] + 1)
    if PREC[k] < parent or rng.random() < 0.2:
        s = "(" + ws() + s + ws() + ")"
    return s


def ev(t, tags):
    k = t[0]
    if k == "tag":
        return t[1] in tags
    if k == "re":
        return any(re.search(t[1], x) for x in tags)
    if k == "not":
        return not ev(t[1], tags)
    if k == "and":
        return ev(t[1], tags) and ev(t[2], tags)
    return ev(t[1], tags) or ev(t[2], tags)


_SUBSETS = [set(c) for r in range(0, 5) for c in itertools.combinations(TAGS, r)]


def run_tag(spec, ctx):
    import random
    from insights.core import taglang
    rng = random.Random(spec["style"])
    t = spec["ast"]
    text = " " * rng.randint(0, 2) + render_bool(t, rng) + " " * rng.randint(0, 2)
    ctx.count("tag_expressions")
    try:
        p = taglang.parse(text)
    except Exception as ex:
        ctx.violation("tag-expression-rejected", {"text": text, "ast": t, "error": str(ex)[:200]})
        return True
    for s in _SUBSETS:
        ctx.count("tag_evaluations")
        for form in (s, sorted(s)):
            if bool(p(form)) != ev(t, s):
                ctx.violation("tag-expression-evaluates-against-stated-precedence", {"text": text, "ast": t, "tags": sorted(s), "got": bool(p(form)), "expected": ev(t, s)})
                return True
    return t[0] in ("and", "or")


def run_case(spec, ctx):
    r = {"peg": run_peg, "json": run_json, "tag": run_tag}[spec["kind"]](spec, ctx)
    return bool(r)
