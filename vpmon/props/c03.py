"""C03 - fault isolation and accounting (fault enumeration per graph)."""
import copy

from vpmon import engine_case as E
from vpmon import gen_graph as G

ID = "C03"
LEVEL = "fault_enumeration"
RULE = ("for each generated fault-free graph: every single-fault placement (node x fault kind in skip, content error, "
        "failed command, timeout, 3 ordinary exception types; for multi-output parsers every element position x kind, "
        "continue_on_error on/off) x store_skips in {off,on}, plus random multi-fault subsets and raising observers; one "
        "evaluation = one (graph, placement, store_skips) run; non-trivial = the faulty node has at least one dependent "
        "or sibling that must survive; distinct by hash of (graph, placement); every fault is raised from a function whose "
        "code name is unique to (node, element) so that a stored traceback can be attributed, failed commands of different "
        "nodes are equal in rc/cmd/output; after evaluations with a HostContext the interval timer must be disarmed; plus the "
        "repository's own graph over faulty synthetic archives and the repository's own test suite under value-free monitors")
ASSUMPTIONS = [
    "ContentException subclasses the skip signal: its recording is optional, but if recorded must be within the allowed key set",
    "allowed keys for a raiser = itself plus every registry point reachable upwards through dependents or downwards through dependencies",
    "faults are Exception subclasses (BaseException such as KeyboardInterrupt is outside the statement)",
]
REACH = [
    "insights/core/dr.py::run_components",
    "insights/core/dr.py::Broker.add_exception",
    "insights/core/dr.py::Broker.fire_observers",
    "insights/core/dr.py::get_registry_points",
    "insights/core/plugins.py::PluginType.invoke",
    "insights/core/plugins.py::datasource.invoke",
    "insights/core/plugins.py::parser.invoke",
    "insights/core/plugins.py::rule.process",
]
PLAN = {
    "quick": {"shards": 8, "cases": 72, "timeout_s": 600, "min_evaluations": 9000,
              "min_counters": {"faults_injected": 9000, "exceptions_recorded": 4500, "suite_run_components_calls": 5000}},
    "thorough": {"shards": 16, "cases": 450, "timeout_s": 3000, "min_evaluations": 100000,
                 "min_counters": {"faults_injected": 100000, "suite_run_components_calls": 7000}},
}

FAULTS = ("skip", "ce", "cpe", "timeout", "boom", "keyerr", "valerr", "typeerr")


def directed(tier):
    """hand-written witnesses (kept as regression cases)"""
    base_ds = {"kind": "datasource", "part": 0, "written": [], "opt": [], "outcome": "value", "enabled": True,
               "seeded": False, "multi": True, "nelem": 3}
    par = {"kind": "parser", "part": 0, "written": [0], "opt": [], "outcome": "value", "enabled": True, "seeded": False,
           "continue_on_error": True, "elem_outcomes": ["value", "skip", "value"]}
    user = {"kind": "combiner", "part": 0, "written": [], "opt": [0, 1], "outcome": "value", "enabled": True, "seeded": False}
    out = []
    for ss in (True, False):
        out.append({"graph": {"nodes": [copy.deepcopy(base_ds), copy.deepcopy(par), copy.deepcopy(user)], "junk": [], "tag": "f1"},
                    "entry": {"form": "all"}, "store_skips": ss, "observers": [], "placement": "directed-F1"})
    for oc in ("cpe", "timeout"):
        ds = dict(base_ds, multi=False, outcome=oc)
        u = dict(user, opt=[0])
        out.append({"graph": {"nodes": [ds, u], "junk": [], "tag": "f2"}, "entry": {"form": "all"}, "store_skips": False,
                    "observers": [], "placement": "directed-F2"})
    # a combiner built DIRECTLY on a helper datasource (not through a spec); the helper is built on spec x, and the
    # implementation of another spec z consumes the combiner.  Helper and combiner both fail: the combiner's failure belongs
    # to itself and to the spec it is built on (x), never to z - in one evaluation, in every entry form and fault kind
    for form in ("all", "incremental", "target"):
        for oc in ("boom", "cpe", "valerr"):
            nodes = [dict(base_ds, kind="impl", multi=False, implements=True),
                     {"kind": "point", "part": 0, "impls": [0], "written": [], "opt": [], "outcome": "value", "enabled": True, "seeded": False, "multi": False, "prio": 0},
                     dict(base_ds, multi=False, written=[1], outcome=oc),
                     {"kind": "combiner", "part": 0, "written": [], "opt": [2], "opt_single": False, "outcome": "boom", "enabled": True, "seeded": False},
                     dict(base_ds, kind="impl", multi=False, implements=True, written=[], opt=[3]),
                     {"kind": "point", "part": 0, "impls": [4], "written": [], "opt": [], "outcome": "value", "enabled": True, "seeded": False, "multi": False, "prio": 0},
                     {"kind": "rule", "part": 0, "written": [5], "opt": [3, 2], "opt_single": False, "outcome": "valerr", "enabled": True, "seeded": False}]
            entry = {"form": form}
            if form == "target":
                entry["node"] = 6
            out.append({"graph": {"nodes": copy.deepcopy(nodes), "junk": [], "tag": "hlp%s%s" % (form[:1], oc[:1])}, "entry": entry, "store_skips": False,
                        "observers": [], "placement": "directed-helper-datasource"})
    # evaluations running at the same time: a parser over a list that gives up at its first failing element, the failing
    # element at every position
    for pos in range(4):
        for oc in ("ce", "cpe", "boom"):
            eo = ["value"] * 4
            eo[pos] = oc
            nodes = [dict(base_ds, multi=True, nelem=4),
                     dict(par, continue_on_error=False, elem_outcomes=eo),
                     dict(par, continue_on_error=True, elem_outcomes=eo),
                     dict(user, opt=[1, 2])]
            out.append({"kind": "concurrent", "graph": {"nodes": copy.deepcopy(nodes), "junk": [], "tag": "cc%d%s" % (pos, oc[:2])}, "store_skips": pos % 2 == 0,
                        "host": False, "threads": 4, "rounds": 12})
    from vpmon.props import c01
    out.append({"kind": "suite", "paths": c01.SUITE_QUICK if tier == "quick" else []})
    return out


def gen_case(rng, tier, idx):
    """a fault-free base graph; run_case enumerates the placements"""
    if idx < (2 if tier == "quick" else 10):
        return {"kind": "realgraph", "archive_seed": rng.getrandbits(30), "fault_rate": rng.choice([0.4, 0.7, 0.95])}
    if idx % 2 == 1:
        gg = G.gen_spec(rng, tier, max_nodes=10, fault_rate=0.35, allow_seeded=False)
        for nd in gg["nodes"]:
            # mostly parsers over lists, many of which give up at the first failing element
            if nd["kind"] == "parser":
                nd["continue_on_error"] = rng.random() < 0.3
                first = nd["written"][0]
                if isinstance(first, int) and gg["nodes"][first]["kind"] in ("datasource", "impl") and gg["nodes"][first]["outcome"] == "value":
                    gg["nodes"][first]["multi"] = True
                    gg["nodes"][first]["nelem"] = 4
        return {"kind": "concurrent", "graph": gg, "store_skips": rng.random() < 0.5, "host": False, "threads": rng.choice([2, 3, 4, 6])}
    g = G.gen_spec(rng, tier, max_nodes=9 if tier == "quick" else 14, fault_rate=0.0, allow_seeded=False)
    for nd in g["nodes"]:
        if nd["kind"] == "parser":
            nd["elem_outcomes"] = ["value"] * 4
        if nd["kind"] == "rule" and nd["outcome"] == "notresponse" and rng.random() < 0.5:
            nd["outcome"] = "pass"
    obs = []
    for _ in range(rng.choice([0, 1, 2])):
        obs.append({"on": rng.choice(["all", "rule", "datasource", "parser", "combiner"]), "raises": True,
                    "shape": rng.choice(["function", "partial", "instance"])})
    return {"graph": g, "entry": {"form": rng.choice(["all", "all", "incremental_shared"])}, "observers": obs,
            "multi_seed": rng.getrandbits(32), "enumerate": True, "host": rng.random() < 0.4}


def placements(case):
    import random
    g = case["graph"]
    nodes = g["nodes"]
    for i, nd in enumerate(nodes):
        if nd["kind"] == "point":
            continue
        for f in FAULTS:
            yield [("node", i, f)]
        if nd["kind"] == "parser":
            for k in range(3):
                for f in ("none", "skip", "ce", "cpe", "boom"):
                    yield [("elem", i, k, f)]
            # all 2-element patterns on positions 0/1
            for f0 in ("skip", "ce", "boom"):
                for f1 in ("skip", "cpe", "boom", "none"):
                    yield [("elem", i, 0, f0), ("elem", i, 1, f1)]
    rng = random.Random(case["multi_seed"])
    cands = [i for i, nd in enumerate(nodes) if nd["kind"] != "point"]
    for _ in range(12):
        k = rng.randint(2, min(4, max(2, len(cands))))
        yield [("node", i, rng.choice(FAULTS)) for i in rng.sample(cands, min(k, len(cands)))]
    # the same fault kind on several components at once (e.g. several consumers of one failing command)
    for f in ("cpe", "cpe", "timeout", "boom"):
        if len(cands) >= 2:
            yield [("node", i, f) for i in rng.sample(cands, rng.randint(2, min(3, len(cands))))]


def apply(case, placement, store_skips, flip_coe):
    c = copy.deepcopy(case)
    c.pop("enumerate", None)
    c["store_skips"] = store_skips
    c["placement"] = placement
    nodes = c["graph"]["nodes"]
    for p in placement:
        if p[0] == "node":
            nodes[p[1]]["outcome"] = p[2]
            if nodes[p[1]]["kind"] == "parser":
                nodes[p[1]]["elem_outcomes"] = [p[2]] * 4 if p[2] != "timeout" else ["boom"] * 4
        else:
            nodes[p[1]]["elem_outcomes"][p[2]] = p[3]
            if flip_coe:
                nodes[p[1]]["continue_on_error"] = not nodes[p[1]].get("continue_on_error", True)
    return c


def run_one(c, ctx):
    r = E.execute(c)
    try:
        ctx.current = c
        v = E.oracle_c03(r)
        for mech, wit in v:
            ctx.violation(mech, wit, spec=c)
        nraised = sum(len(m["raised"]) for m in r.model)
        ctx.count("faults_injected", nraised)
        inst, exc, tbs, miss, dup = E.merged(r.brokers)
        ctx.count("exceptions_recorded", sum(len(x) for x in exc.values()))
        ctx.count("tracebacks_checked", len(tbs))
        ctx.count("observer_exceptions_raised", len(r.observer_excs))
        ctx.count("survivors_compared", sum(1 for m in r.model if m["present"]))
        if c.get("host"):
            ctx.count("evaluations_with_host_context_alarm_checked")
        for m in r.model:
            for (_, k, oc) in m["raised"]:
                ctx.seen("fault_kinds_raised", oc + ("@element" if k is not None else ""))
        return nraised > 0 and sum(1 for m in r.model if m["present"]) > 0
    finally:
        r.built.cleanup()


def run_realgraph(spec, ctx):
    """the repository's own parsers fail in every way real parsers fail; the accounting monitors need no expected values"""
    from vpmon import realgraph as R
    root, treat = R.make_archive(spec["archive_seed"], spec["fault_rate"])
    try:
        events, brokers, raised, g = R.evaluate(root, "serial")
        br = brokers[0]
        for mech, wit in R.engine_monitors(events, br, g, raised):
            ctx.violation(mech, dict(wit, workload="the repository's own component graph"))
        n = sum(len(v) for v in br.exceptions.values())
        ctx.count("real_graph_evaluations")
        ctx.count("faults_injected", n)
        ctx.count("exceptions_recorded", n)
        ctx.count("tracebacks_checked", len(br.tracebacks))
        for lst in br.exceptions.values():
            for e in lst:
                ctx.seen("real_exception_types", type(e).__name__)
        case = {"kind": "realgraph", "archive_seed": spec["archive_seed"], "fault_rate": spec["fault_rate"]}
        ctx.note_case(case, n > 0)
    finally:
        R.cleanup(root)
    ctx.evaluations -= 1
    return False


def run_concurrent(spec, ctx):
    """Several evaluations of ONE graph at the same time, each on its own broker (a service analysing several archives in
    worker threads): every one of them must end exactly like the evaluation made alone - a failure in one evaluation
    affects nothing in another."""
    import sys
    import threading
    import time
    from insights.core import dr
    from vpmon.props import c04
    b = G.build(spec["graph"])
    old = sys.getswitchinterval()
    try:
        graph = G.full_graph(b)
        alone = dr.run(dict(graph), broker=c04.mk_broker(spec, b))
        d0, _ = c04.digest([alone], b)
        n = spec["threads"]
        for round_ in range(spec.get("rounds", 4)):
            results = [None] * n
            gate = threading.Barrier(n)

            def work(j):
                try:
                    gate.wait(timeout=10)
                except threading.BrokenBarrierError:
                    pass
                try:
                    results[j] = dr.run(dict(graph), broker=c04.mk_broker(spec, b))
                except Exception as ex:
                    results[j] = ex
            import random as _random
            jit = _random.Random(spec["threads"] * 7919 + len(spec["graph"]["nodes"]))
            b.sleep[0] = lambda: time.sleep(jit.choice([0, 0, 0, 0.0003]))   # bodies yield, as real components do while they read and parse
            sys.setswitchinterval(1e-6)
            ts = [threading.Thread(target=work, args=(j,), daemon=True) for j in range(n)]
            for t in ts:
                t.start()
            for t in ts:
                t.join(60)
            sys.setswitchinterval(old)
            b.sleep[0] = None
            ctx.count("concurrent_evaluation_groups")
            for j, r in enumerate(results):
                if r is None:
                    ctx.count("concurrent_evaluations_not_finished")
                    continue
                ctx.count("concurrent_evaluations_compared")
                if isinstance(r, Exception):
                    ctx.violation("evaluation-raised", {"exc": repr(r)[:300], "concurrent_evaluations": n})
                    continue
                d, _ = c04.digest([r], b)
                if d != d0:
                    ctx.violation("evaluation-affected-by-another-evaluation-running-at-the-same-time",
                                  {"concurrent_evaluations": n, "alone": d0[:600], "concurrent": d[:600]})
                    return True
        return True
    finally:
        sys.setswitchinterval(old)
        b.sleep[0] = None
        b.cleanup()


def run_case(spec, ctx):
    if spec.get("kind") == "realgraph":
        return run_realgraph(spec, ctx)
    if spec.get("kind") == "concurrent":
        return run_concurrent(spec, ctx)
    if spec.get("kind") == "suite":
        from vpmon.props import c01
        return c01.run_suite(spec, ctx, ID)
    if not spec.get("enumerate"):
        return run_one(spec, ctx)
    any_nt = False
    for pl in placements(spec):
        for ss in (False, True):
            flips = (False, True) if any(p[0] == "elem" for p in pl) else (False,)
            for fl in flips:
                c = apply(spec, pl, ss, fl)
                nt = run_one(c, ctx)
                ctx.note_case(c, nt)
                any_nt = any_nt or nt
    ctx.count("base_graphs")
    ctx.evaluations -= 1          # the base graph itself is not an evaluation (default loop adds one)
    return False
