"""C01 - at most once, after dependencies were attempted, seeds untouched."""
from vpmon import engine_case as E
from vpmon import gen_graph as G

ID = "C01"
LEVEL = "exploration"
RULE = ("random acyclic component graphs (2-14 nodes quick, up to 40 thorough) built with the real decorators "
        "(plain/implicit ComponentType, component, combiner, condition, incident, fact, rule, datasource, parser incl. "
        "multi-output, RegistryPoint with 0-3 implementations), random required/at-least-one/optional edges, outcomes, "
        "disabled and pre-seeded nodes, evaluated through every entry form of dr.run (explicit graph, single target, "
        "list, set, component type, group, sub-dictionary, run_incremental with fresh/shared broker); non-trivial = "
        ">= 3 nodes, >= 1 edge and >= 2 nodes without a path between them (a tie-break exists); distinct by hash of "
        "the full case spec; plus, per shard, evaluations of the repository's OWN component graph (all shipped specs, parsers "
        "and combiners, ~2 600 components) against synthetic archives filled from the parsers' docstring samples with "
        "content faults, under the same value-free monitors; plus, once per run, the repository's own test suite (quick: "
        "the engine-heavy directories, thorough: all of it) as a workload under a pytest plugin that attaches the "
        "value-free monitors to every dr.run_components call the tests make (test verdicts are not looked at)")
ASSUMPTIONS = [
    "None is not used as a value a component body returns; pre-seeded values may be None",
    "the order the engine chooses is varied by allocation perturbation and by the PYTHONHASHSEED sweep of C04, not enumerated",
    "events are recorded by wrapping ComponentType.process / rule.process / Broker.__setitem__ / dr.run_order from the harness",
]
REACH = [
    "insights/core/dr.py::run_components",
    "insights/core/dr.py::run",
    "insights/core/dr.py::run_incremental",
    "insights/core/dr.py::get_subgraphs",
    "insights/core/dr.py::get_dependency_graph",
    "insights/core/dr.py::Broker.fire_observers",
    "insights/contrib/toposort.py::toposort",
]
PLAN = {
    "quick": {"shards": 8, "cases": 1500, "timeout_s": 600, "min_evaluations": 6000,
              "min_counters": {"process_events": 18000, "attempt_events": 18000, "suite_run_components_calls": 5000}},
    "thorough": {"shards": 16, "cases": 16000, "timeout_s": 3000, "min_evaluations": 30000,
                 "min_counters": {"process_events": 100000, "suite_run_components_calls": 7000}},
}


SUITE_QUICK = ["insights/tests/core", "insights/tests/specs", "insights/tests/plugins", "insights/tests/test_integration_support.py"]


def directed(tier):
    return [{"kind": "suite", "paths": SUITE_QUICK if tier == "quick" else []}]


def run_suite(spec, ctx, prop):
    """the repository's own tests as a workload: only what the monitors saw counts"""
    import os
    from vpmon import runner, suite
    paths = [p_ for p_ in spec["paths"] if os.path.exists(os.path.join(runner.repo_root(), p_))]
    if spec["paths"] and not paths:
        ctx.count("suite_paths_missing")
        return False
    doc = suite.run_suite(runner.repo_root(), paths)
    if "error" in doc:
        ctx.count("suite_runs_without_monitor_output")
        ctx.sets.setdefault("suite_errors", set()).add(doc["error"][-300:])
        return False
    ctx.count("suite_runs")
    for k, v in doc["stats"].items():
        ctx.count("suite_" + k, v)
    ctx.count("suite_tests_collected", doc.get("tests_collected") or 0)
    for pr, mech, wit in doc["violations"]:
        if pr == prop:
            ctx.violation(mech, dict(wit, workload="the repository's own test suite"))
    return True


def gen_case(rng, tier, idx):
    if idx < (2 if tier == "quick" else 12):
        return {"kind": "realgraph", "archive_seed": rng.getrandbits(30), "fault_rate": rng.choice([0.1, 0.3, 0.6])}
    return E.gen_engine_case(rng, tier)


def nontrivial(spec):
    if spec.get("kind") in ("realgraph", "suite"):
        return True
    nodes = spec["graph"]["nodes"]
    n = len(nodes)
    if n < 3:
        return False
    anc = []
    edges = 0
    for i, nd in enumerate(nodes):
        a = set()
        for d in G.all_deps(nd):
            edges += 1
            a.add(d)
            a |= anc[d]
        anc.append(a)
    if not edges:
        return False
    for i in range(n):
        for j in range(i):
            if j not in anc[i]:
                return True
    return False


def run_realgraph(spec, ctx):
    from vpmon import realgraph as R
    root, treat = R.make_archive(spec["archive_seed"], spec["fault_rate"])
    try:
        for mode in ("serial", "incremental"):
            events, brokers, raised, g = R.evaluate(root, mode)
            for mech, wit in R.engine_monitors(events, brokers[0], g, raised):
                ctx.violation(mech, dict(wit, workload="the repository's own component graph", mode=mode))
            ctx.count("real_graph_evaluations")
            ctx.count("real_graph_components", len(g))
            ctx.count("process_events", sum(1 for e in events if e[2] == "process"))
            ctx.count("attempt_events", sum(1 for e in events if e[2] == "attempt"))
            ctx.count("real_graph_exceptions_recorded", sum(len(v) for v in brokers[0].exceptions.values()))
    finally:
        R.cleanup(root)


def run_case(spec, ctx):
    if spec.get("kind") == "realgraph":
        return run_realgraph(spec, ctx)
    if spec.get("kind") == "suite":
        return run_suite(spec, ctx, ID)
    r = E.execute(spec)
    try:
        runs = [r]
        if E.has_second_phase(spec):
            runs.append(E.second_phase(r))
            ctx.count("second_evaluations_after_late_registration")
        for n_, rr in enumerate(runs):
            for mech, wit in E.oracle_c01(rr):
                ctx.violation(mech, dict(wit, evaluation=n_ + 1))
            for ev in rr.events:
                k = ev[2]
                ctx.count(k + "_events")
                if k == "order":
                    ctx.seen("run_orders", hash(tuple(rr.built.index.get(c, -1) for c in ev[3])) & 0xffffffff)
            ctx.count("seeded_nodes", len(rr.seeds))
            ctx.count("seeded_with_None", sum(1 for v in rr.seeds.values() if v is None))
        ctx.count("entry_" + spec["entry"]["form"])
        if spec.get("serialized"):
            ctx.count("evaluations_with_a_loaded_archive_broker")
            ctx.count("dependencies_left_out_for_preloaded_components", len(getattr(r, "pruned", ())))
    finally:
        r.built.cleanup()
