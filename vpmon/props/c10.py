"""C10 - cleaning is a deterministic, order-preserving function of content and configuration."""
import json
import os
import re
import subprocess
import sys

from vpmon import gen_text as T

ID = "C10"
LEVEL = "exploration"
RULE = ("batches of (content, configuration) cases - slot lines where obfuscators compete for the same text: keywords that are "
        "parts of the host name, of addresses, of MACs, of substitutes ('host', 'example', 'keyword'), 'password' followed by "
        "a keyword/host/IP, host names with IP-like labels; blank lines; contents that are entirely excluded - are cleaned "
        "in child interpreters started with PYTHONHASHSEED in 0..7 (quick) / 0..47 (thorough), each case in a fresh Cleaner "
        "with every obfuscator's parse_line wrapped to record the application order; the parent compares outputs and orders "
        "across children, checks tag order / one id per output line, and the empty-result behaviour of clean_content, "
        "ContentProvider.write and clean_file; for a share of cases the same lines are also collected from a text file (with "
        "characters that str.splitlines() - but not a text file - treats as line breaks) by a TextFileProvider under a "
        "HostContext and the stored file is compared with the directly cleaned lines; and groups of 3-8 specs with different "
        "exemptions / allow-lists are cleaned through ONE Cleaner by 2-8 threads (switch interval 1 us, a yield before every "
        "line) and compared with each spec cleaned alone; one evaluation = one case under all seeds; non-trivial = >= 2 obfuscators "
        "were applied and a competing keyword is configured; distinct by case hash")
ASSUMPTIONS = [
    "tags ('~~digits~~') cannot be touched: keywords are never digit-only and contain no '~'; host short names contain a letter",
    "hash-seed dependence is observed through child interpreters; 8 (quick) / 48 (thorough) seeds are swept, not all 2^32",
    "blank input lines are anonymous",
    "threads share a Cleaner only with obfuscation off (the only situation in which the collector uses its parallel strategy)",
]
REACH = [
    "insights/cleaner/__init__.py::Cleaner.clean_content",
    "insights/cleaner/__init__.py::Cleaner.clean_file",
    "insights/core/spec_factory.py::ContentProvider.write",
    "insights/core/spec_factory.py::ContentProvider._clean_content",
]
PLAN = {
    "quick": {"shards": 4, "cases": 1200, "timeout_s": 900, "min_evaluations": 4000,
              "min_counters": {"child_results_compared": 32000, "application_orders_recorded": 24000, "empty_results_checked": 400,
                               "concurrent_cleanings_compared": 2000}},
    "thorough": {"shards": 16, "cases": 1600, "timeout_s": 3300, "min_evaluations": 9000,
                 "min_counters": {"child_results_compared": 400000}},
}
# Cleaner.clean_content documents: 1. redact (patterns), 2. filter (allow-list), 3. obfuscate: Hostname, IP, IPv6, Keyword, Mac, Password
DOCUMENTED_ORDER = ["pattern", "allow_filter", "hostname", "ip", "ipv6", "keyword", "mac", "password"]
COMPETE = ["srvq", "zzcorp", "lab.zz", "nodeq", "2.3", "230.230", "10.2", "aa:b", "ff", "password", "example", "host", "keyword",
           "e.com", "test", "q7", "S3c", "com", "0.1"]


ID_RE = re.compile(r"~~\d+(?:~\d+)*~~")


def directed(tier):
    cfg = {"fqdn": "node1.example.org", "obfuscate": True, "obfuscate_hostname": True, "obfuscate_mac": True,
           "keywords": ["node"], "patterns": None}
    # a very large spec (big logs, package verification listings): stored line by line like any other
    plain = {"fqdn": "node1.example.org", "obfuscate": False, "obfuscate_hostname": False, "obfuscate_mac": False, "keywords": ["zzsecret"], "patterns": None}
    big = [{"cfg": plain, "lines": ["~~7~%d~~ rec %06d ok" % (i, i) for i in range(n)], "via_file": True, "no_obfuscate": [], "no_redact": False}
           for n in ((65537,) if tier == "quick" else (65537, 140001))]
    return [{"cfg": cfg, "lines": ["~~0~~ node1.example.org is node1 at 1.2.3.4", "~~1~~ password: node1"], "no_obfuscate": [], "no_redact": False}] + big


def gen_case(rng, tier, idx):
    cfg = T.gen_config(rng)
    kws = rng.sample(COMPETE, rng.randint(0, 3)) + rng.sample(T.KEYWORDS, rng.randint(0, 2))
    short = cfg["fqdn"].split(".")[0]
    if rng.random() < 0.4:
        kws.append(short[:rng.randint(2, len(short))])
    if rng.random() < 0.2 and "." in cfg["fqdn"]:
        kws.append(cfg["fqdn"].split(".", 1)[1][:rng.randint(3, 8)])
    cfg["keywords"] = [k for k in dict.fromkeys(kws) if not k.isdigit() and "~" not in k]
    lines = []
    base = rng.randint(0, 10 ** 6)
    n = rng.randint(0, 12)
    alldrop = rng.random() < 0.1 and cfg.get("patterns")
    for i in range(n):
        r = rng.random()
        if r < 0.1:
            lines.append("")
            continue
        tag = "~~%d~%d~~" % (base, i)
        if alldrop:
            ls = T.gen_line(rng, cfg, tag, kinds=["drop"], nslots=1)
            if ls["slots"][0][0] != "drop":
                ls = None
        else:
            ls = T.gen_line(rng, cfg, tag)
        if ls is not None:
            text = T.render(ls)
            if rng.random() < 0.2:
                text += " password: " + rng.choice([cfg["fqdn"], short, "1.2.3.4", (cfg["keywords"] or ["x"])[0], "aa:bb:cc:dd:ee:01"])
            if rng.random() < 0.15:
                text += " n1.2.3.4." + cfg["fqdn"] + " 10-1-2-3." + (T.domain_of(cfg["fqdn"]) or "x")
            lines.append(text)
    if rng.random() < 0.25 and lines:
        # characters str.splitlines() treats as line boundaries but a text file does not: a line stays ONE line
        k = rng.randrange(len(lines))
        if lines[k]:
            lines[k] = lines[k] + " tail" + rng.choice(["\x0b", "\x0c", "\x1c", "\x1d", "\x1e", "\x85", "\u2028", "\u2029"]) + "rest " + rng.choice(["lorem", "1.2.3.4", "x"])
    via_file = rng.random() < 0.4
    case = {"cfg": cfg, "lines": lines, "via_file": via_file, "no_obfuscate": rng.sample(["hostname", "ip", "keyword", "mac", "password"], rng.choice([0, 0, 0, 1, 2])),
            "no_redact": rng.random() < 0.1}
    if rng.random() < 0.06 and cfg["obfuscate"]:
        # the width-preserving path (netstat_-neopa) with one line the obfuscator cannot handle (an address as the very last
        # thing on the line): the spec is refused as a whole - an exception - or comes out intact, never half-way
        pad = " " * 16
        wl = []
        for i in range(rng.randint(3, 9)):
            wl.append("~~%d~%d~~%stcp%s%s:22%s%s:4444%sESTABLISHED" % (base, 100 + i, pad, pad, rng.choice(["8.8.8.8", "192.168.100.200", "10.9.8.7"]), pad,
                                                                   rng.choice(["1.2.3.4", "172.16.254.123"]), pad))
        bad = rng.randrange(len(wl))
        wl[bad] = "~~%d~%d~~%sudp%s%s" % (base, 100 + bad, pad, pad, rng.choice(["8.8.8.8", "1.2.3.4", "172.16.254.123"]))
        return {"cfg": cfg, "lines": wl, "via_file": False, "no_obfuscate": [], "no_redact": False, "width": True}
    if rng.random() < 0.08:
        # nothing at all is active for this spec: every obfuscator opted out, no exclusion pattern, no keyword
        case["no_obfuscate"] = ["hostname", "ip", "ipv6", "mac", "password"] + (["keyword"] if rng.random() < 0.6 else [])
        if "keyword" not in case["no_obfuscate"]:
            cfg["keywords"] = []
        if rng.random() < 0.5:
            cfg["patterns"] = None
        else:
            case["no_redact"] = True
        if rng.random() < 0.6:
            case["lines"] = [""] * rng.randint(1, 5)
        return case
    if rng.random() < 0.3:
        # a filterable spec: the allow-list (filter -> match budget) is part of the configuration; the collector
        # hands the same dictionary object to every cleaning of that spec
        case["allowlist"] = dict((f, rng.choice([1, 1, 2, 3, 10000])) for f in rng.sample(["~", "lorem", "e", "1", "a", "tcp", " "], rng.randint(1, 3)))
    return case


# --------------------------------------------------------------------------
def child_main(path, only=None):
    import logging
    import shutil
    import tempfile
    logging.disable(logging.CRITICAL)
    from vpmon import reach
    reach.start(REACH)
    from insights.cleaner import filters as cf, hostname, ip, keyword, mac, password, pattern
    from insights.core.context import HostContext
    from insights.core.exceptions import ContentException
    from insights.core.spec_factory import DatasourceProvider
    order = []

    def wrap(cls, name):
        orig = cls.parse_line

        def parse_line(self, line, **kw):
            order.append(name)
            return orig(self, line, **kw)
        cls.parse_line = parse_line
    for cls, name in ((pattern.Pattern, "pattern"), (cf.AllowFilter, "allow_filter"), (hostname.Hostname, "hostname"), (ip.IPv4, "ip"),
                      (keyword.Keyword, "keyword"), (mac.Mac, "mac"), (password.Password, "password")):
        wrap(cls, name)
    with open(path) as f:
        cases = json.load(f)
    out = []
    base = tempfile.mkdtemp(prefix="vpc10_")
    try:
        for n, c in enumerate(cases):
            if only is not None and n != only:
                continue
            cleaner = T.make_cleaner(c["cfg"])
            del order[:]
            res = {"n": n}
            try:
                kw = {}
                if c.get("allowlist") is not None:
                    kw["allowlist"] = shared_allowlist = dict(c["allowlist"])
                if c.get("width"):
                    kw["width"] = True
                r = cleaner.clean_content(list(c["lines"]), no_obfuscate=list(c["no_obfuscate"]), no_redact=c["no_redact"], **kw)
                res["out"] = r
                if "allowlist" in kw:
                    # same content, same configuration (the very same allow-list object), fresh cleaner
                    seq_first = list(order)
                    r2 = T.make_cleaner(c["cfg"]).clean_content(list(c["lines"]), no_obfuscate=list(c["no_obfuscate"]), no_redact=c["no_redact"], **kw)
                    res["out_again"] = r2
                    res["allowlist_after"] = shared_allowlist
                    del order[len(seq_first):]
                nonblank = [l for l in c["lines"] if l]
                per_line = len(order) // len(nonblank) if nonblank else 0
                # order in which the obfuscators were applied to the first processed non-blank line that survived them all
                seq = []
                for name in order:
                    if name in seq:
                        break
                    seq.append(name)
                res["order"] = seq
            except Exception as ex:
                res["out"] = "RAISED %r" % (ex,)
                res["order"] = []
            # the same content collected from a text file by a provider of a host context: what is stored must be exactly
            # what cleaning the lines gives
            if c.get("via_file") and c.get("allowlist") is None and isinstance(res["out"], list):
                from insights.core.spec_factory import TextFileProvider
                froot = os.path.join(base, "r%d" % n)
                os.makedirs(os.path.join(froot, "etc"))
                with open(os.path.join(froot, "etc", "f.txt"), "w", encoding="utf-8", newline="\n") as fh:
                    fh.write("".join(l + "\n" for l in c["lines"]))

                class DS2(object):
                    no_obfuscate = list(c["no_obfuscate"])
                    no_redact = c["no_redact"]
                dst2 = os.path.join(base, "fw%d" % n, "f.txt")
                try:
                    tp = TextFileProvider("etc/f.txt", root=froot, ctx=HostContext(root=froot), cleaner=T.make_cleaner(c["cfg"]))
                    tp.ds = DS2()
                    tp.write(dst2)
                    with open(dst2, encoding="utf-8", newline="\n") as fh:
                        res["stored"] = fh.read().split("\n")
                except ContentException:
                    res["stored"] = "content-exception"
                except Exception as ex:
                    res["stored"] = "other %r" % (ex,)
            # empty-result behaviour
            if isinstance(res["out"], list) and not any(l for l in res["out"]):
                class DS(object):
                    no_obfuscate = list(c["no_obfuscate"])
                    no_redact = c["no_redact"]
                dst = os.path.join(base, "w%d" % n, "f.txt")
                prov = DatasourceProvider(list(c["lines"]), "rel/p.txt", ds=DS(), ctx=HostContext(root=base), cleaner=T.make_cleaner(c["cfg"]))
                try:
                    prov.write(dst)
                    res["write"] = "wrote"
                except ContentException:
                    res["write"] = "content-exception"
                except Exception as ex:
                    res["write"] = "other %r" % (ex,)
                res["write_file_exists"] = os.path.exists(dst)
                fp = os.path.join(base, "cf%d.txt" % n)
                with open(fp, "w") as fh:
                    fh.write("".join(l + "\n" for l in c["lines"]))
                try:
                    T.make_cleaner(c["cfg"]).clean_file(fp, no_obfuscate=list(c["no_obfuscate"]), no_redact=c["no_redact"])
                    res["clean_file_exists"] = os.path.exists(fp)
                    res["clean_file_size"] = os.path.getsize(fp) if os.path.exists(fp) else -1
                except Exception as ex:
                    res["clean_file_exists"] = "raised %r" % (ex,)
            out.append(res)
    finally:
        shutil.rmtree(base, ignore_errors=True)
    sys.stdout.write(json.dumps({"results": out, "reach": reach.hits()}))


def run_shard(ctx):
    from vpmon.runner import case_hash, jdump
    cases = []
    if ctx.shard == 0:
        cases.extend(directed(ctx.tier))
    for idx in range(ctx.plan["cases"]):
        cases.append(gen_case(ctx.rng, ctx.tier, idx))
    seeds = list(range(8)) if ctx.tier == "quick" else list(range(48))
    scratch = os.environ.get("VERIF_SCRATCH") or "/tmp"
    path = os.path.join(scratch, "c10_cases_%d.json" % ctx.shard)
    with open(path, "w") as f:
        f.write(jdump(cases))
    results = {}
    procs = []

    def collect(procs):
        for hs, p in procs:
            try:
                out, err = p.communicate(timeout=900)
            except subprocess.TimeoutExpired:
                p.kill()
                ctx.count("harness_errors")
                ctx.sets.setdefault("harness_error_texts", set()).add("child %d timed out" % hs)
                continue
            if p.returncode != 0:
                ctx.count("harness_errors")
                ctx.sets.setdefault("harness_error_texts", set()).add("child %d rc=%s %s" % (hs, p.returncode, err.decode("utf-8", "replace")[-800:]))
                continue
            doc = json.loads(out.decode())
            results[hs] = doc["results"]
            from vpmon import reach
            for h in doc["reach"]:
                reach._HITS.add(tuple(h.split("::", 1)))
    for hs in seeds:
        env = dict(os.environ)
        env["PYTHONHASHSEED"] = str(hs)
        procs.append((hs, subprocess.Popen([sys.executable, "-m", "vpmon.props.c10", "--child", path], env=env,
                                           stdout=subprocess.PIPE, stderr=subprocess.PIPE)))
        if len(procs) >= 4:
            collect(procs)
            procs = []
    collect(procs)
    ctx.count("hash_seeds_swept", len(results))
    if not results:
        return
    # ---- "in a fresh cleaner": also fresh with respect to what OTHER cleaners of the process did before.  A few cases are
    # cleaned once more, each alone in a brand-new interpreter, and compared with what the sequence above gave for them
    ref0 = results[sorted(results)[0]]
    cand = [n for n, c in enumerate(cases) if n > 0 and c["cfg"].get("obfuscate") and c["cfg"].get("obfuscate_hostname") and c["lines"] and not c.get("width")]
    alone = []
    for n in ctx.rng.sample(cand, min(len(cand), 6 if ctx.tier == "quick" else 16)):
        env = dict(os.environ)
        env["PYTHONHASHSEED"] = str(sorted(results)[0])
        alone.append((n, subprocess.Popen([sys.executable, "-m", "vpmon.props.c10", "--child-alone", path, str(n)], env=env,
                                          stdout=subprocess.PIPE, stderr=subprocess.PIPE)))
    for n, p_ in alone:
        try:
            o_, e_ = p_.communicate(timeout=300)
            doc_ = json.loads(o_.decode())["results"]
        except Exception:
            p_.kill()
            ctx.count("harness_errors")
            ctx.sets.setdefault("harness_error_texts", set()).add("child cleaning one case alone failed")
            continue
        ctx.count("cases_cleaned_alone_in_a_new_interpreter")
        if doc_ and doc_[0]["out"] != ref0[n]["out"]:
            a_, b_ = doc_[0]["out"], ref0[n]["out"]
            diff_ = None
            if isinstance(a_, list) and isinstance(b_, list):
                diff_ = [(x, y) for x, y in zip(a_, b_) if x != y][:2]
            ctx.current = cases[n]
            ctx.violation("output-depends-on-what-other-cleaners-of-the-process-did-before", {"alone_vs_in_sequence": diff_ or [str(a_)[:200], str(b_)[:200]],
                                                                                                "fqdn": cases[n]["cfg"]["fqdn"]})
            ctx.current = None
    ref_seed = sorted(results)[0]
    before = {}          # (a, b) -> witness that a was applied before b
    for n, c in enumerate(cases):
        ctx.current = c
        ref = results[ref_seed][n]
        nt = False
        for hs in sorted(results):
            r = results[hs][n]
            ctx.count("child_results_compared")
            if r["out"] != ref["out"]:
                diff = None
                if isinstance(r["out"], list) and isinstance(ref["out"], list):
                    for a, b in zip(ref["out"], r["out"]):
                        if a != b:
                            diff = {"seed_%d" % ref_seed: a, "seed_%d" % hs: b}
                            break
                ctx.violation("output-differs-between-hash-seeds", {"PYTHONHASHSEED": [ref_seed, hs], "first_difference": diff or [str(ref["out"])[:300], str(r["out"])[:300]],
                                                                      "keywords": c["cfg"]["keywords"], "fqdn": c["cfg"]["fqdn"]})
            if r["order"] != ref["order"]:
                ctx.violation("obfuscators-applied-in-different-order-between-hash-seeds", {"PYTHONHASHSEED": [ref_seed, hs], "orders": [ref["order"], r["order"]]})
            if r["order"]:
                idx_ = [DOCUMENTED_ORDER.index(x) for x in r["order"] if x in DOCUMENTED_ORDER]
                if idx_ != sorted(idx_):
                    ctx.violation("obfuscators-not-applied-in-the-documented-order", {"observed": r["order"], "documented": DOCUMENTED_ORDER})
                ctx.count("application_orders_recorded")
                ctx.seen("application_orders", tuple(r["order"]))
            for i, a in enumerate(r["order"]):
                for b in r["order"][i + 1:]:
                    if (b, a) in before:
                        ctx.violation("obfuscator-order-not-fixed-across-cases", {"this_case": r["order"], "other_case": before[(b, a)], "pair": [a, b]})
                    before.setdefault((a, b), r["order"])
            for k in ("write", "write_file_exists", "clean_file_exists", "clean_file_size", "stored"):
                if r.get(k) != ref.get(k):
                    ctx.violation("empty-result-behaviour-differs-between-hash-seeds", {"key": k, "values": [ref.get(k), r.get(k)]})
        out = ref["out"]
        if "out_again" in ref:
            ctx.count("repeated_cleanings_compared")
            if ref["out_again"] != ref["out"]:
                ctx.violation("same-content-and-configuration-cleaned-twice-differs", {"first": ref["out"][:6] if isinstance(ref["out"], list) else ref["out"],
                                                                                        "second": ref["out_again"][:6] if isinstance(ref["out_again"], list) else ref["out_again"],
                                                                                        "allowlist": c.get("allowlist"), "allowlist_after": ref.get("allowlist_after")})
            elif ref.get("allowlist_after") != c.get("allowlist"):
                ctx.violation("cleaning-changed-its-configuration", {"allowlist": c.get("allowlist"), "allowlist_after": ref.get("allowlist_after")})
        if "stored" in ref and isinstance(out, list):
            uncleaned_ = c["no_redact"] and set(c["no_obfuscate"]) >= set(["hostname", "ip", "ipv6", "keyword", "mac", "password"])
            if not uncleaned_ and c["lines"]:
                ctx.count("file_collections_compared_with_direct_cleaning")
                exp_stored = list(out) if any(l for l in out) else "content-exception"
                if ref["stored"] != exp_stored:
                    ctx.violation("stored-file-content-differs-from-cleaning-its-lines", {
                        "lines": c["lines"][:4], "cleaned_lines": exp_stored[:4] if isinstance(exp_stored, list) else exp_stored,
                        "stored": ref["stored"][:6] if isinstance(ref["stored"], list) else ref["stored"],
                        "counts": [len(c["lines"]), len(exp_stored) if isinstance(exp_stored, list) else None, len(ref["stored"]) if isinstance(ref["stored"], list) else None]})
        if isinstance(out, str) and c.get("width") and "SubIPError" in out:
            ctx.count("specs_refused_as_a_whole_by_the_width_preserving_path")
        elif isinstance(out, str):
            ctx.violation("clean-content-raised", {"error": out[:400]})
        else:
            tags_in = [T.tag_of(l) for l in c["lines"]]
            pos = dict((t, i) for i, t in enumerate(tags_in) if t)
            last = -1
            for o in out:
                if o == "":
                    continue
                found = [t for t in dict.fromkeys(ID_RE.findall(o)) if t in pos] if len(pos) > 200 else [t for t in pos if t in o]
                if len(found) != 1 or not o.startswith(found[0]):
                    ctx.violation("output-line-without-exactly-one-input-id", {"line": o[:200], "ids": found})
                    continue
                if pos[found[0]] <= last:
                    ctx.violation("output-order-differs-from-input-order", {"line": o[:200]})
                last = pos[found[0]]
            ctx.count("output_lines_checked", len(out))
            if not any(l for l in out) and c.get("allowlist") is None:
                ctx.count("empty_results_checked")
                if out != []:
                    ctx.violation("blank-only-result-not-dropped", {"result": out[:5]})
                # a spec that opts out of every obfuscator and of redaction is by design not cleaned by the provider at
                # all (spec_factory: "Skipping cleaning"), so nothing is "left" blank by cleaning there
                uncleaned = c["no_redact"] and set(c["no_obfuscate"]) >= set(["hostname", "ip", "ipv6", "keyword", "mac", "password"])
                if c["lines"] and not uncleaned:
                    if ref.get("write") != "content-exception" or ref.get("write_file_exists"):
                        ctx.violation("empty-spec-stored", {"write": ref.get("write"), "file_exists": ref.get("write_file_exists")})
                    if ref.get("clean_file_exists") is not False:
                        ctx.violation("empty-file-kept-by-clean-file", {"exists": ref.get("clean_file_exists"), "size": ref.get("clean_file_size")})
            nt = len(ref["order"]) >= 2 and any(k in COMPETE or k in c["cfg"]["fqdn"] for k in c["cfg"]["keywords"])
        ctx.note_case(c, nt)
        if nt and len(ctx.samples) < 3:
            ctx.sample({"case": c, "output_seed0": out[:6] if isinstance(out, list) else out, "order": ref["order"]})
    ctx.current = None
    # ---- one cleaner shared by several threads (the parallel run strategy) ----
    if ctx.plan.get("cases"):
        for _ in range(60 if ctx.tier == "quick" else 250):
            c = gen_concurrent(ctx.rng)
            ctx.current = c
            run_concurrent(c, ctx)
            ctx.note_case(c, True)
        ctx.current = None


def gen_concurrent(rng):
    """one Cleaner shared by the worker threads of the 'parallel' run strategy (allowed when obfuscation is off): every job
    is a spec with its own content and its own exemptions / allow-list"""
    cfg = T.gen_config(rng, force_obfuscate=False)
    if not cfg.get("patterns"):
        cfg["patterns"] = {"plain": ["XDROPX", "drop.me"]}
    if not cfg["keywords"]:
        cfg["keywords"] = ["ZEBRA", "uniq"]
    if rng.random() < 0.5 and cfg["patterns"].get("plain"):
        # a long exclusion list (what sites really configure); the entries that occur in the content come last
        cfg["patterns"] = {"plain": ["NEVER-%d-OCCURS" % i for i in range(rng.randint(50, 300))] + list(cfg["patterns"]["plain"])}
    jobs = []
    base = rng.randint(0, 10 ** 6)
    for j in range(rng.randint(3, 8)):
        lines = [T.render(T.gen_line(rng, cfg, "~~%d~%d~%d~~" % (base, j, i), kinds=["drop", "drop", "kw", "pw", "fill", "fill"])) for i in range(rng.randint(3, 25))]
        job = {"lines": lines, "no_redact": rng.random() < 0.4, "no_obfuscate": rng.sample(["keyword", "password"], rng.choice([0, 0, 1, 2])),
               "allowlist": None}
        if rng.random() < 0.3:
            job["allowlist"] = dict((f, rng.choice([1, 2, 10000])) for f in rng.sample(["~", "lorem", "e", "1", "a", "tcp", " "], rng.randint(1, 3)))
        jobs.append(job)
    return {"kind": "concurrent", "cfg": cfg, "jobs": jobs, "workers": rng.choice([2, 4, 8]), "repeat": rng.randint(2, 4)}


def run_concurrent(spec, ctx, mechanism="output-differs-when-other-threads-use-the-same-cleaner"):
    """same content + same configuration = same output, also while other threads clean other specs with the same Cleaner"""
    import time
    from concurrent.futures import ThreadPoolExecutor
    from insights.cleaner import pattern as pattern_mod

    def clean(cleaner, job):
        kw = {}
        if job["allowlist"] is not None:
            kw["allowlist"] = dict(job["allowlist"])
        try:
            return cleaner.clean_content(list(job["lines"]), no_obfuscate=list(job["no_obfuscate"]), no_redact=job["no_redact"], **kw)
        except Exception as ex:
            return "RAISED %r" % (ex,)
    # reference: every job alone, in a fresh cleaner
    expected = [clean(T.make_cleaner(spec["cfg"]), job) for job in spec["jobs"]]
    shared = T.make_cleaner(spec["cfg"])
    todo = [(n, job) for _ in range(spec["repeat"]) for n, job in enumerate(spec["jobs"])]
    old = sys.getswitchinterval()
    orig_parse = pattern_mod.Pattern.parse_line

    def yielding(self, line, **kw):
        time.sleep(0)           # a real suspension point: between two lines of one spec
        return orig_parse(self, line, **kw)
    pattern_mod.Pattern.parse_line = yielding
    sys.setswitchinterval(1e-6)
    import threading
    gate = threading.Barrier(min(spec["workers"], len(todo)))

    def task(it):
        k, (n, job) = it
        if k < gate.parties:
            try:
                gate.wait(timeout=5)        # the first jobs reach the brand-new cleaner together
            except threading.BrokenBarrierError:
                pass
        return (n, clean(shared, job))
    try:
        with ThreadPoolExecutor(max_workers=spec["workers"]) as pool:
            results = list(pool.map(task, list(enumerate(todo))))
    finally:
        sys.setswitchinterval(old)
        pattern_mod.Pattern.parse_line = orig_parse
    ctx.count("concurrent_groups")
    ctx.count("concurrent_cleanings_compared", len(results))
    for n, got in results:
        if got != expected[n]:
            diff = None
            if isinstance(got, list) and isinstance(expected[n], list):
                diff = {"only_alone": [l for l in expected[n] if l not in got][:3], "only_concurrent": [l for l in got if l not in expected[n]][:3]}
            ctx.violation(mechanism, {"job": dict(spec["jobs"][n], lines=spec["jobs"][n]["lines"][:3]),
                                                                                      "difference": diff or [str(expected[n])[:200], str(got)[:200]],
                                                                                      "workers": spec["workers"]})
            break
    return True


def run_case(spec, ctx):
    """replay of a single case: runs the sweep for just this case"""
    if spec.get("kind") == "concurrent":
        return run_concurrent(spec, ctx)
    saved = ctx.plan.get("cases")
    ctx.plan["cases"] = 0
    global directed
    orig = directed
    directed = lambda tier: [spec]
    try:
        sh = ctx.shard
        ctx.shard = 0
        run_shard(ctx)
        ctx.shard = sh
    finally:
        directed = orig
        ctx.plan["cases"] = saved
    ctx.evaluations -= 1
    return False


if __name__ == "__main__":
    if len(sys.argv) > 3 and sys.argv[1] == "--child-alone":
        child_main(sys.argv[2], only=int(sys.argv[3]))
    elif len(sys.argv) > 2 and sys.argv[1] == "--child":
        child_main(sys.argv[2])
