"""C11 - what collection persists is what analysis loads (round trip + corruption enumeration)."""
import itertools
import json
import os
import shutil
import sys
import tempfile
import types

ID = "C11"
LEVEL = "fault_enumeration"
RULE = ("real round trip: a generated SpecSet under a HostContext (text file, raw file, glob, first-of, per-item file, command, "
        "per-item command, container file/command through a harness execution context that emulates the engine, in-memory "
        "DatasourceProvider, failing datasources) with save_as variants (none, rename, directory form, leading '/'), "
        "persisted by Hydration.make_persister during dr.run and loaded into a fresh Broker by "
        "hydration.initialize_broker (one archive in four additionally by a fresh interpreter that re-creates only the spec "
        "classes; both views are compared provider by provider); contents are Unicode lines with ids, empty lines anywhere, 0-3 trailing empty lines "
        "and long lines; then for every archive every metadata entry x {data file deleted, metadata truncated at each "
        "quarter, non-JSON, JSON of the wrong shape, unknown component name, null results, entry replaced by a directory} "
        "plus random subsets is corrupted and the archive re-loaded; failed components and partly stored multi-output specs "
        "must carry their errors; a share of archives is persisted through a thread pool; one evaluation = one load (clean or corrupted); "
        "non-trivial = the archive holds >= 3 entries of >= 2 provider kinds; distinct by hash of (archive spec, corruption)")
ASSUMPTIONS = [
    "lines contain no str.splitlines() break characters, no carriage return and no lone surrogates",
    "loaded content is compared with the host provider's content at persist time (not with the source file), up to one trailing empty line",
    "most loads use a fresh Broker in the collecting process (component look-up by name uses the live registry); every archive of a share (1 in 4) is also loaded by a fresh interpreter that re-creates only the spec classes, and both views are compared",
    "container engines are emulated by a HostContext subclass that maps '<engine> exec <id> <cmd>' to the scratch root",
]
REACH = [
    "insights/core/serde.py::Hydration.dehydrate",
    "insights/core/serde.py::Hydration.hydrate",
    "insights/core/serde.py::Hydration._hydrate_one",
    "insights/core/serde.py::marshal",
    "insights/core/serde.py::unmarshal",
    "insights/core/hydration.py::initialize_broker",
    "insights/core/spec_factory.py::serialize_text_file_provider",
    "insights/core/spec_factory.py::serialize_raw_file_provider",
    "insights/core/spec_factory.py::serialize_command_output",
    "insights/core/spec_factory.py::serialize_datasource_provider",
    "insights/core/spec_factory.py::serialize_container_file_output",
    "insights/core/spec_factory.py::serialize_container_command",
    "insights/core/spec_factory.py::deserialize_text_provider",
    "insights/core/spec_factory.py::deserialize_command_output",
    "insights/core/spec_factory.py::deserialize_container_command",
    "insights/core/dr.py::run",
]
PLAN = {
    "quick": {"shards": 8, "cases": 42, "timeout_s": 900, "min_evaluations": 7500,
              "min_counters": {"providers_compared": 60000, "corruptions_applied": 6000, "archives_written": 300, "failed_components_checked": 120,
                               "archives_loaded_by_a_fresh_interpreter": 40}},
    "thorough": {"shards": 16, "cases": 300, "timeout_s": 3300, "min_evaluations": 100000,
                 "min_counters": {"providers_compared": 1000000}},
}
_UID = itertools.count()
ALPHA = "ab \t\u00e9\u4e2d\U0001F600#=:;'\"\\%{}[]$`!*?~<>|&^()-_+,./@0123456789xyzXYZ"


def gen_line(rng, n, long_ok):
    r = rng.random()
    if r < 0.15:
        return ""
    if long_ok and r < 0.17:
        return "id%d:" % n + "L" * rng.choice([70000, 150000, 1100000 if long_ok == "huge" else 90000])
    return "id%d:" % n + "".join(rng.choice(ALPHA) for _ in range(rng.randint(0, 24)))


def gen_content(rng, long_ok=False):
    lines = [gen_line(rng, n, long_ok) for n in range(rng.randint(0, 9))]
    lines += [""] * rng.choice([0, 0, 1, 2, 3])
    return lines


def gen_case(rng, tier, idx):
    long_ok = ("huge" if tier == "thorough" else True) if rng.random() < 0.15 else False
    files = {}
    n = 0
    for d, k in (("etc", 4), ("etc/d", 4), ("var/log", 2), ("data", 3)):
        for i in range(rng.randint(1, k)):
            # base names are unique over the whole tree: the directory form of save_as stores by base name
            files["%s/f%d%s" % (d, n, rng.choice(["", ".conf", ".log"]))] = gen_content(rng, long_ok)
            n += 1
    names = sorted(files)
    # files collected raw live apart: a raw and a text spec for one source file would share one data location
    raw_names = []
    for i in range(rng.randint(1, 3)):
        files["bin/r%d.bin" % i] = gen_content(rng, long_ok)
        raw_names.append("bin/r%d.bin" % i)
    specs = []
    kinds = ["simple_file", "simple_file", "raw_file", "glob_file", "first_file", "foreach_collect", "simple_command", "foreach_execute",
             "container_collect", "container_execute", "datasource_provider", "datasource_provider_list", "failing", "failing_cpe", "printf",
             "foreach_echo"]
    for k in range(rng.randint(4, 11)):
        kind = rng.choice(kinds)
        s = {"kind": kind, "path": "/" + rng.choice(names), "save_as": rng.choice([None, None, "renamed_%d.txt" % k, "dir_%d/" % k, "/lead_%d/x" % k, "deep/er/d%d/" % k])}
        if kind == "raw_file":
            s["path"] = "/" + rng.choice(raw_names)
        if kind == "glob_file":
            s["path"] = rng.choice(["/etc/*", "/etc/d/*", "/*/f*", "/var/log/*", "/data/f*"])
        if kind in ("foreach_collect", "foreach_execute"):
            s["items"] = rng.sample(names, rng.randint(1, min(4, len(names))))
        if kind in ("container_collect", "container_execute"):
            s["items"] = [["img%d" % j, rng.choice(["podman", "docker"]), "cid%d" % j] for j in range(rng.randint(1, 3))]
        if kind.startswith("datasource_provider"):
            s["content"] = [gen_content(rng, long_ok) for _ in range(rng.randint(1, 3))]
        if kind == "foreach_echo":
            # per-item commands whose argument is set but falsy (0, '') next to ordinary ones; the spec index keeps the
            # mangled command names apart
            s["items"] = rng.sample([0, "", "x%d" % k, 7, "a b"], rng.randint(2, 4))
        if kind == "printf":
            # the spec index makes the mangled command name (the data location) unique: mangle_command maps every
            # non-word character to '_', so commands differing only in punctuation would share one location
            s["text"] = "t%d" % k + "".join(rng.choice("ab c:=") for _ in range(rng.randint(1, 10)))
        specs.append(s)
    case = {"files": files, "specs": specs, "subset_seed": rng.getrandbits(32)}
    if rng.random() < 0.4:
        # parallel collection: the persister serialises list elements on a thread pool; the first element of every
        # list is made much more expensive to serialise than the later ones
        case["pool"] = rng.choice([2, 4, 8])
        big = ["id%d:" % n + "B" * 200 for n in range(3000)]
        first = names[0]
        files[first] = big + [""] * rng.choice([0, 1])
        for s in specs:
            if s["kind"] in ("foreach_collect", "foreach_execute"):
                s["items"] = [first] + [x for x in s["items"] if x != first]
            if s["kind"] == "datasource_provider_list":
                # ... followed by many medium-sized ones that the workers write side by side into one directory
                s["content"] = [list(big)] + s["content"] + [["id%d:m%d" % (n, j) + "M" * 40 for n in range(150)] for j in range(12)] + [["id0:tiny"]]
    return case


def nontrivial(spec):
    return len(spec["specs"]) >= 3 and len(set(s["kind"] for s in spec["specs"])) >= 2


def norm_eq(P, L):
    if isinstance(P, bytes) or isinstance(L, bytes):
        return P == L
    P, L = list(P), list(L)
    return L == P or (bool(P) and P[-1] == "" and L == P[:-1])


def build_specset(spec, root, uid, modname, created, reinvoked):
    """the generated SpecSet: registry points, host implementations (class I) and implementations for the
    serialized-archive context (class J); returns the list of registry points"""
    from insights.core import spec_factory as sf
    from insights.core.context import HostContext, SerializedArchiveContext
    from insights.core.exceptions import CalledProcessError
    from insights.core.plugins import datasource
    # ---- build the spec set ------------------------------------------
    dct = {"__module__": modname}
    multi_kinds = ("glob_file", "foreach_collect", "foreach_execute", "container_collect", "container_execute", "datasource_provider_list", "foreach_echo")
    for k, s in enumerate(spec["specs"]):
        dct["s%d" % k] = sf.RegistryPoint(multi_output=s["kind"] in multi_kinds, raw=s["kind"] == "raw_file")
    S = type("S%d" % uid, (sf.SpecSet,), dct)
    body = {"__module__": modname}
    body2 = {"__module__": modname}

    def fn_ds(name, fn, deps):
        fn.__name__ = fn.__qualname__ = name
        fn.__module__ = modname
        d = datasource(*deps)(fn)
        created.append(d)
        return d
    for k, s in enumerate(spec["specs"]):
        kind, sa, path = s["kind"], s.get("save_as"), s["path"]
        sa_dir = {"save_as": sa} if sa and sa.endswith("/") else {}
        sa_any = {"save_as": sa} if sa else {}
        sa_file = {"save_as": sa} if sa and not sa.endswith("/") else {}
        if kind == "simple_file":
            d = sf.simple_file(path, context=HostContext, **sa_any)
        elif kind == "raw_file":
            d = sf.simple_file(path, context=HostContext, kind=sf.RawFileProvider, **sa_any)
        elif kind == "glob_file":
            d = sf.glob_file(path, context=HostContext, **sa_dir)
        elif kind == "first_file":
            d = sf.first_file(["/no/such/file", path], context=HostContext, **sa_any)
        elif kind == "foreach_collect":
            pv = fn_ds("prov%d_%d" % (uid, k), (lambda items: (lambda broker: list(items)))(s["items"]), [HostContext])
            d = sf.foreach_collect(pv, "/%s", context=HostContext, **sa_dir)
        elif kind == "simple_command":
            d = sf.simple_command("/bin/cat %s" % os.path.join(root, path.lstrip("/")), **sa_file)
        elif kind == "printf":
            d = sf.simple_command("/usr/bin/printf %s" % ("'" + s["text"].replace("'", "") + "\\n\\nend'"), **sa_file)
        elif kind == "foreach_execute":
            pv = fn_ds("prov%d_%d" % (uid, k), (lambda items: (lambda broker: [os.path.join(root, i) for i in items]))(s["items"]), [HostContext])
            d = sf.foreach_execute(pv, "/bin/cat %s")
        elif kind == "foreach_echo":
            pv = fn_ds("prov%d_%d" % (uid, k), (lambda items: (lambda broker: list(items)))(s["items"]), [HostContext])
            d = sf.foreach_execute(pv, "/bin/echo tag%d %%s" % k)
        elif kind == "container_collect":
            pv = fn_ds("prov%d_%d" % (uid, k), (lambda items: (lambda broker: [tuple(i) for i in items]))(s["items"]), [HostContext])
            d = sf.container_collect(pv, path)
        elif kind == "container_execute":
            pv = fn_ds("prov%d_%d" % (uid, k), (lambda items, p: (lambda broker: [tuple(i) + (p,) for i in items]))(s["items"], path), [HostContext])
            d = sf.container_execute(pv, "cat %s")
        elif kind == "datasource_provider":
            d = fn_ds("mem%d_%d" % (uid, k), (lambda s_, k_: (lambda broker: sf.DatasourceProvider(
                list(s_["content"][0]), relative_path="mem/dir/file%d" % k_, save_as=(s_.get("save_as") or "").lstrip("/") or None,
                ctx=broker[HostContext])))(s, k), [HostContext])
        elif kind == "datasource_provider_list":
            d = fn_ds("meml%d_%d" % (uid, k), (lambda s_, k_: (lambda broker: [sf.DatasourceProvider(
                list(c), relative_path="meml/%d/file%d" % (k_, j), ctx=broker[HostContext]) for j, c in enumerate(s_["content"])]))(s, k), [HostContext])
        elif kind == "failing":
            def boom(broker, _k=k):
                raise RuntimeError("boom-%d" % _k)
            d = fn_ds("boom%d_%d" % (uid, k), boom, [HostContext])
        elif kind == "failing_cpe":
            def cpe(broker, _k=k):
                raise CalledProcessError(3, "cmd-%d" % _k, "output")
            d = fn_ds("cpe%d_%d" % (uid, k), cpe, [HostContext])
        else:
            raise ValueError(kind)
        created.append(d)
        body["s%d" % k] = d

        def again(broker, _k=k):
            reinvoked.append(_k)
            return sf.DatasourceProvider(["recollected"], relative_path="again/%d" % _k)
        body2["s%d" % k] = fn_ds("again%d_%d" % (uid, k), again, [SerializedArchiveContext])
    type("I%d" % uid, (S,), body)
    type("J%d" % uid, (S,), body2)
    pts = [getattr(S, "s%d" % k) for k in range(len(spec["specs"]))]
    created.extend(pts)
    return pts


def run_case(spec, ctx):
    if "archive" in spec and "corruption" in spec:
        spec = spec["archive"]         # a replay file holds (archive, corruption): the archive goes through every corruption again
    from insights.core import dr, hydration
    from insights.core import spec_factory as sf
    from insights.core.context import HostContext, SerializedArchiveContext
    from insights.core.exceptions import CalledProcessError
    from insights.core.plugins import datasource
    from insights.core.serde import Hydration
    from vpmon import gen_graph as G
    uid = next(_UID)
    modname = "vpmon_c11.m%d" % uid
    sys.modules[modname] = types.ModuleType(modname)
    created = []
    base = tempfile.mkdtemp(prefix="vpc11_")
    orig_which = sf.which

    def which(cmd, env=None):
        if cmd in ("/usr/bin/podman", "/usr/bin/docker"):
            return cmd
        return orig_which(cmd, env=env)
    try:
        root = os.path.join(base, "root")
        for rel, lines in spec["files"].items():
            p = os.path.join(root, rel)
            os.makedirs(os.path.dirname(p), exist_ok=True)
            with open(p, "w", encoding="utf-8") as f:
                f.write("\n".join(lines))

        class EngineContext(HostContext):
            """emulates '<engine> exec <id> <cmd ...>' against the scratch root"""

            def check_output(self, cmd, timeout=None, keep_rc=False, env=None, signum=None):
                cmd = [list(c) for c in cmd]
                if cmd and cmd[0] and cmd[0][0] in ("/usr/bin/podman", "/usr/bin/docker"):
                    rest = cmd[0][3:]
                    rest = [rest[0] if rest[0].startswith("/") else "/bin/" + rest[0]] + [os.path.join(root, a.lstrip("/")) if a.startswith("/") else a for a in rest[1:]]
                    cmd[0] = rest
                return HostContext.check_output(self, cmd, timeout=timeout, keep_rc=keep_rc, env=env, signum=signum)
        sf.which = which
        reinvoked = []
        pts = build_specset(spec, root, uid, modname, created, reinvoked)
        # ---- collect + persist -------------------------------------------
        out = os.path.join(base, "out")
        br = dr.Broker()
        hc = EngineContext(root=root)
        br[HostContext] = hc
        pool = None
        if spec.get("pool"):
            from concurrent.futures import ThreadPoolExecutor
            pool = ThreadPoolExecutor(max_workers=spec["pool"])
            ctx.count("archives_written_with_thread_pool")
        h = Hydration(out, hc, pool=pool)
        br.add_observer(h.make_persister(set(pts)))
        graph = {}
        for p in pts:
            graph.update(dr.get_dependency_graph(p))
        old_switch = sys.getswitchinterval()
        if pool is not None:
            sys.setswitchinterval(1e-6)          # the persister's worker threads interleave at every opportunity
        try:
            dr.run(dict(graph), broker=br)
        finally:
            if pool is not None:
                pool.shutdown(wait=True)
            sys.setswitchinterval(old_switch)
        os.makedirs(out, exist_ok=True)
        open(os.path.join(out, "insights_archive.txt"), "w").close()
        ctx.count("archives_written")
        # expected view per point (taken at persist time from the host providers)
        expected = {}
        for k, p in enumerate(pts):
            v = br.get(p)
            if v is None:
                expected[k] = None
                continue
            lst = v if isinstance(v, list) else [v]
            items = []
            for prov in lst:
                try:
                    c = prov.content
                except Exception:
                    c = None
                items.append({"content": c, "cmd": prov.cmd, "args": prov.args, "relative_path": prov.relative_path, "save_as": prov.save_as,
                              "cls": type(prov).__name__})
            expected[k] = {"multi": isinstance(v, list), "items": items}
        # the host goes on living after the collection: collected files are appended to / truncated in place (a daemon
        # writing its log, logrotate copytruncate) before the archive is loaded - the archive holds a snapshot
        import random as _random
        rr = _random.Random(spec.get("subset_seed", 0) ^ 0x5eed)
        for dp, dn, fn in os.walk(root):
            for f_ in sorted(fn):
                fp_ = os.path.join(dp, f_)
                if os.path.islink(fp_) or not os.path.isfile(fp_) or rr.random() < 0.3:
                    continue
                try:
                    if rr.random() < 0.6:
                        with open(fp_, "ab") as fh_:
                            fh_.write(b"APPENDED-AFTER-COLLECTION\n")
                    else:
                        with open(fp_, "r+b") as fh_:
                            fh_.truncate(0)
                    ctx.count("source_files_changed_in_place_after_collection")
                except OSError:
                    pass
        meta_dir = os.path.join(out, "meta_data")
        meta_files = sorted(os.listdir(meta_dir)) if os.path.isdir(meta_dir) else []
        meta_of = {}
        for mf in meta_files:
            with open(os.path.join(meta_dir, mf)) as f:
                doc = json.load(f)
            for k, p in enumerate(pts):
                if doc["name"] == dr.get_name(p):
                    meta_of[k] = (mf, doc)

        def load_and_compare(corrupted, label):
            """corrupted: set of point indices whose entry was damaged (not judged)"""
            raised = None
            try:
                ctx2, b2 = hydration.initialize_broker(out)
            except Exception as ex:
                raised = ex
            case = {"archive": spec, "corruption": label}
            ctx.note_case(case, nontrivial(spec))
            if raised is not None:
                ctx.violation("loading-the-archive-raised", {"corruption": label, "exc": repr(raised)[:300]}, spec=case)
                return None
            if not isinstance(ctx2, SerializedArchiveContext):
                ctx.violation("archive-not-recognised-as-serialized", {"context": type(ctx2).__name__}, spec=case)
                return None
            for k, p in enumerate(pts):
                if k in corrupted:
                    continue
                exp = expected[k]
                got = b2.get(p)
                s = spec["specs"][k]
                rec0 = meta_of.get(k)
                was_persisted = bool(rec0 and rec0[1]["results"])
                if not was_persisted:
                    if got is not None:
                        ctx.violation("spec-loaded-that-was-never-persisted", {"spec": k, "kind": s["kind"], "corruption": label}, spec=case)
                    continue
                if exp is None:
                    continue
                if got is None:
                    ctx.violation("persisted-spec-missing-after-load", {"spec": k, "kind": s["kind"], "corruption": label,
                                                                         "meta": meta_of.get(k, (None, None))[0]}, spec=case)
                    continue
                glist = got if isinstance(got, list) else [got]
                nres = rec0[1]["results"]
                nres = len(nres) if isinstance(nres, list) else 1
                if label == "none" and exp["multi"] and len(exp["items"]) > nres >= 1:
                    # some elements of the list could not be stored (empty or unreadable when written): the component partly
                    # failed, and "a component that failed is persisted with its errors"
                    ctx.count("partly_stored_multi_output_specs")
                    if not rec0[1].get("errors"):
                        ctx.violation("partly-failed-component-persisted-without-errors", {"spec": k, "kind": s["kind"], "elements": len(exp["items"]),
                                                                                           "stored": nres}, spec=case)
                elist = [i for i in exp["items"] if i["content"] is not None and len(i["content"]) > 0]
                if len(elist) != nres:
                    # an element whose host content was empty / unreadable at persist time: which elements were
                    # stored is not decidable from the host side; only the stored count is compared
                    ctx.count("specs_with_unreadable_elements")
                    if len(glist) != nres:
                        ctx.violation("element-count-differs-after-load", {"spec": k, "kind": s["kind"], "persisted": nres, "loaded": len(glist)}, spec=case)
                    continue
                if isinstance(got, list) != exp["multi"]:
                    ctx.violation("multi-output-shape-changed", {"spec": k, "kind": s["kind"]}, spec=case)
                    continue
                if len(glist) != len(elist):
                    ctx.violation("element-count-differs-after-load", {"spec": k, "kind": s["kind"], "persisted": len(elist), "loaded": len(glist)}, spec=case)
                    continue
                for j, (g, e) in enumerate(zip(glist, elist)):
                    ctx.count("providers_compared")
                    try:
                        L = g.content
                    except Exception as ex:
                        ctx.violation("loaded-provider-content-raises", {"spec": k, "kind": s["kind"], "exc": repr(ex)[:200]}, spec=case)
                        continue
                    if not norm_eq(e["content"], L):
                        P = e["content"]
                        ctx.violation("loaded-content-differs-from-persisted", {
                            "spec": k, "kind": s["kind"], "element": j,
                            "persisted": (P[:6] if not isinstance(P, bytes) else repr(P[:80])), "loaded": (L[:6] if not isinstance(L, bytes) else repr(L[:80])),
                            "lens": [len(P), len(L)]}, spec=case)
                    if s["kind"] in ("simple_command", "printf", "foreach_execute", "container_execute", "foreach_echo"):
                        if g.cmd != e["cmd"] or _j(g.args) != _j(e["args"]):
                            ctx.violation("command-or-arguments-differ-after-load", {"spec": k, "kind": s["kind"], "persisted": [e["cmd"], e["args"]], "loaded": [g.cmd, g.args]}, spec=case)
                    rec = meta_of.get(k)
                    if rec:
                        res = rec[1]["results"]
                        rl = res if isinstance(res, list) else [res]
                        if j < len(rl) and rl[j]:
                            relrec = rl[j]["object"]["relative_path"]
                            if g.relative_path != relrec:
                                ctx.violation("relative-location-differs-from-recorded", {"spec": k, "kind": s["kind"], "recorded": relrec, "loaded": g.relative_path}, spec=case)
                            if not os.path.isfile(os.path.join(out, "data", relrec)):
                                ctx.violation("recorded-location-has-no-file", {"spec": k, "recorded": relrec}, spec=case)
                            if s["kind"] in ("simple_file", "raw_file", "glob_file", "first_file", "foreach_collect") and not e["save_as"]:
                                if g.relative_path != e["relative_path"]:
                                    ctx.violation("file-location-changed-without-save-as", {"spec": k, "kind": s["kind"], "original": e["relative_path"], "loaded": g.relative_path}, spec=case)
                            if e["save_as"]:
                                ctx.count("save_as_locations_checked")
            return b2
        # ---- failed components are persisted with their errors ----------
        for k, s in enumerate(spec["specs"]):
            if s["kind"] in ("failing", "failing_cpe"):
                ctx.count("failed_components_checked")
                rec = meta_of.get(k)
                if rec is None:
                    ctx.violation("failed-component-not-persisted", {"spec": k, "kind": s["kind"]})
                elif not rec[1]["errors"] or rec[1]["results"]:
                    ctx.violation("failed-component-persisted-without-errors", {"spec": k, "doc": repr(rec[1])[:300]})
        # ---- clean load ----------------------------------------------------
        b2 = load_and_compare(set(), "none")
        loaded_view = dict((k, b2.get(p_)) for k, p_ in enumerate(pts)) if b2 is not None else {}
        if b2 is not None:
            del reinvoked[:]
            try:
                dr.run(dict(graph), broker=b2)
            except Exception as ex:
                ctx.violation("re-evaluation-of-loaded-archive-raised", {"exc": repr(ex)[:200]})
            for k in reinvoked:
                if expected[k] is not None and pts[k] in b2 and meta_of.get(k) and meta_of[k][1]["results"]:
                    ctx.violation("loaded-spec-collected-again", {"spec": k, "kind": spec["specs"][k]["kind"]})
            ctx.count("reevaluations_checked")
            ctx.count("specs_recollected_because_absent", len(reinvoked))
        # ---- the same archive loaded by a fresh interpreter ----------------
        if b2 is not None and spec["subset_seed"] % 4 == 0:
            import subprocess
            job = os.path.join(base, "child_job.json")
            with open(job, "w") as f:
                json.dump({"spec": spec, "root": root, "uid": uid, "modname": modname, "out": out}, f)
            env = dict(os.environ)
            try:
                cp = subprocess.run([sys.executable, "-m", "vpmon.props.c11", "--child-load", job], env=env, stdout=subprocess.PIPE,
                                    stderr=subprocess.PIPE, timeout=300)
                doc = json.loads(cp.stdout.decode()) if cp.returncode == 0 else None
            except (subprocess.TimeoutExpired, ValueError):
                cp, doc = None, None
            if doc is None:
                ctx.count("harness_errors")
                ctx.sets.setdefault("harness_error_texts", set()).add("child load failed: %s" % (cp.stderr.decode("utf-8", "replace")[-600:] if cp else "timeout"))
            elif doc.get("raised"):
                ctx.violation("loading-the-archive-raised", {"where": "fresh interpreter", "exc": doc["raised"][:300]})
            else:
                ctx.count("archives_loaded_by_a_fresh_interpreter")
                for k, p_ in enumerate(pts):
                    mine = loaded_view[k]          # as loaded, before the re-evaluation above filled in absent specs
                    theirs = doc["points"].get(str(k))
                    if (mine is None) != (theirs is None):
                        ctx.violation("fresh-interpreter-loads-a-different-set-of-specs", {"spec": k, "kind": spec["specs"][k]["kind"],
                                                                                            "collecting_process": mine is not None, "fresh_interpreter": theirs is not None})
                        continue
                    if mine is None:
                        continue
                    ml = mine if isinstance(mine, list) else [mine]
                    if isinstance(mine, list) != theirs["multi"] or len(ml) != len(theirs["items"]):
                        ctx.violation("fresh-interpreter-loads-a-different-shape", {"spec": k, "kind": spec["specs"][k]["kind"]})
                        continue
                    for g, t in zip(ml, theirs["items"]):
                        ctx.count("providers_compared_across_processes")
                        try:
                            c = g.content
                        except Exception as ex:
                            c = "RAISED %s" % type(ex).__name__
                        if isinstance(c, bytes):
                            c = {"bytes": c.decode("latin-1")}
                        if _j(c) != _j(t["content"]) or g.relative_path != t["relative_path"] or _j(g.cmd) != _j(t["cmd"]) or _j(g.args) != _j(t["args"]) \
                                or type(g).__name__ != t["cls"]:
                            ctx.violation("fresh-interpreter-loads-different-content", {
                                "spec": k, "kind": spec["specs"][k]["kind"], "collecting_process": [type(g).__name__, g.relative_path, g.cmd, repr(c)[:200]],
                                "fresh_interpreter": [t["cls"], t["relative_path"], t["cmd"], repr(t["content"])[:200]]})
        # ---- corruption enumeration ---------------------------------------
        import random
        rng = random.Random(spec["subset_seed"])
        by_file = dict((mf, k) for k, (mf, doc) in meta_of.items())

        def corrupt(mf, how):
            """returns an undo callable"""
            p = os.path.join(meta_dir, mf)
            with open(p, "rb") as f:
                orig = f.read()
            doc = json.loads(orig.decode())

            def restore():
                if os.path.isdir(p):
                    os.rmdir(p)
                with open(p, "wb") as f:
                    f.write(orig)
            if how.startswith("truncate"):
                q = int(how[-1])
                with open(p, "wb") as f:
                    f.write(orig[:len(orig) * q // 4])
            elif how == "nonjson":
                with open(p, "wb") as f:
                    f.write(b"\x00\xff not json {{{")
            elif how == "wrongshape":
                with open(p, "w") as f:
                    json.dump(rng.choice([[1, 2, 3], {"name": 5}, "str", {"name": doc["name"], "results": {"type": "x"}}, {"name": doc["name"], "exec_time": 1, "ser_time": 1, "results": [{"nope": 1}]},
                                          {"name": doc["name"], "exec_time": None, "ser_time": None, "results": {"type": "insights.core.spec_factory.TextFileProvider", "object": {}}}]), f)
            elif how == "unknown":
                doc["name"] = "no.such.module.Component%d" % uid
                with open(p, "w") as f:
                    json.dump(doc, f)
            elif how == "nullresults":
                doc["results"] = None
                with open(p, "w") as f:
                    json.dump(doc, f)
            elif how == "directory":
                os.remove(p)
                os.mkdir(p)
            elif how == "datafile":
                res = doc["results"]
                rl = res if isinstance(res, list) else [res] if res else []
                victims = [os.path.join(out, "data", r["object"]["relative_path"]) for r in rl if r]
                if not victims:
                    return lambda: None
                v = rng.choice(victims)
                if not os.path.isfile(v):
                    return lambda: None
                with open(v, "rb") as f:
                    vorig = f.read()
                os.remove(v)

                def restore2():
                    with open(v, "wb") as f:
                        f.write(vorig)
                return restore2
            return restore
        HOWS = ["datafile", "truncate1", "truncate2", "truncate3", "truncate0", "nonjson", "wrongshape", "unknown", "nullresults", "directory"]
        for mf in meta_files:
            for how in HOWS:
                undo = corrupt(mf, how)
                try:
                    ctx.count("corruptions_applied")
                    ctx.seen("corruption_kinds", how)
                    damaged = set([by_file[mf]]) if mf in by_file else set()
                    if how == "datafile":
                        # a data file may be shared by several entries that point at the same location
                        damaged = set(range(len(pts)))
                        damaged -= set(k for k in range(len(pts)) if not _shares_files(meta_of, k, by_file.get(mf)))
                    load_and_compare(damaged, "%s:%s" % (how, mf.split(".")[-2] if "." in mf else mf))
                finally:
                    undo()
        for _ in range(6):
            if len(meta_files) < 2:
                break
            chosen = rng.sample(meta_files, rng.randint(2, min(4, len(meta_files))))
            undos = []
            damaged = set()
            label = []
            try:
                for mf in chosen:
                    how = rng.choice([h for h in HOWS if h != "datafile"])
                    undos.append(corrupt(mf, how))
                    label.append(how)
                    if mf in by_file:
                        damaged.add(by_file[mf])
                ctx.count("corruptions_applied", len(chosen))
                ctx.count("multi_entry_corruptions")
                load_and_compare(damaged, "+".join(label) + ":%d" % len(chosen))
            finally:
                for u in reversed(undos):
                    u()
        ctx.evaluations -= 1
        return False
    finally:
        sf.which = orig_which
        for c in created:
            G._unregister(c)
        dr.COMPONENTS_BY_NAME.clear()
        sys.modules.pop(modname, None)
        shutil.rmtree(base, ignore_errors=True)


def child_load(job_path):
    """fresh interpreter: re-create the spec classes only (nothing is collected), load the archive, print what it holds"""
    import logging
    logging.disable(logging.CRITICAL)
    with open(job_path) as f:
        job = json.load(f)
    from insights.core import hydration
    sys.modules[job["modname"]] = types.ModuleType(job["modname"])
    pts = build_specset(job["spec"], job["root"], job["uid"], job["modname"], [], [])
    res = {"points": {}}
    try:
        ctx2, b2 = hydration.initialize_broker(job["out"])
    except Exception as ex:
        res["raised"] = repr(ex)
        sys.stdout.write(json.dumps(res))
        return
    for k, p in enumerate(pts):
        v = b2.get(p)
        if v is None:
            res["points"][str(k)] = None
            continue
        items = []
        for g in (v if isinstance(v, list) else [v]):
            try:
                c = g.content
            except Exception as ex:
                c = "RAISED %s" % type(ex).__name__
            if isinstance(c, bytes):
                c = {"bytes": c.decode("latin-1")}
            items.append({"content": c, "relative_path": g.relative_path, "cmd": g.cmd, "args": json.loads(_j(g.args)), "cls": type(g).__name__})
        res["points"][str(k)] = {"multi": isinstance(v, list), "items": items}
    sys.stdout.write(json.dumps(res))


def _shares_files(meta_of, k, victim_k):
    """True iff entry k points at a data file that entry victim_k also points at"""
    if victim_k is None or k not in meta_of:
        return k == victim_k

    def files(i):
        res = meta_of[i][1]["results"]
        rl = res if isinstance(res, list) else [res] if res else []
        return set(r["object"]["relative_path"] for r in rl if r)
    return bool(files(k) & files(victim_k))


def _j(x):
    return json.dumps(x, default=list, sort_keys=True)


if __name__ == "__main__":
    if len(sys.argv) == 3 and sys.argv[1] == "--child-load":
        child_load(sys.argv[2])
