"""C12 - every evaluated rule yields exactly one well-formed, accounted outcome."""
import collections
import io
import itertools
import json
import os
import sys
import types

ID = "C12"
LEVEL = "exploration"
RULE = ("rule sets of 1-25 rules spread over 1-3 synthetic modules (several share a module, a key, a type) with random tags / "
        "links, a dependency situation (met, missing required, missing at-least-one group, dependency failed, disabled) and "
        "a body outcome (each make_* constructor, None, a non-response object, an exception, a deliberate skip, a constructor "
        "call with a None/''/int/bytes key, a reserved argument name, payloads sized limit-1/limit/limit+1 for the default "
        "and for a lowered size limit); evaluated by SingleEvaluator (serial, incremental, incremental+pool), "
        "InsightsEvaluator, JsonFormat and YamlFormat under every missing/show_rules combination, JsonFormat also with "
        "render_content over rules whose content template renders / has an undefined variable / raises / does not parse; the response is checked by "
        "counting against the expected multiset; one evaluation = (rule set, evaluator variant); non-trivial = >= 3 rules "
        "with >= 3 distinct outcome kinds; distinct by hash of (rule set, variant)")
ASSUMPTIONS = [
    "metadata keys are unique per rule (aggregated metadata is a dictionary by design)",
    "rule details are JSON/YAML serialisable values",
    "the size limit is read from insights.settings at call time; the lowered limit is set and restored by the harness",
]
REACH = [
    "insights/core/plugins.py::rule.process",
    "insights/core/plugins.py::Response.__init__",
    "insights/core/plugins.py::Response.validate_key",
    "insights/core/plugins.py::Response.validate_kwargs",
    "insights/core/plugins.py::Response.adjust_for_length",
    "insights/core/evaluators.py::Evaluator.observer",
    "insights/core/evaluators.py::SingleEvaluator.get_response",
    "insights/core/evaluators.py::SingleEvaluator.handle_result",
    "insights/core/evaluators.py::InsightsEvaluator.format_result",
    "insights/formats/_json.py::JsonFormat.handle_result",
    "insights/formats/_json.py::JsonFormat.postprocess",
    "insights/formats/_yaml.py::YamlFormat.postprocess",
    "insights/formats/__init__.py::get_response_of_types",
]
PLAN = {
    "quick": {"shards": 8, "cases": 90, "timeout_s": 900, "min_evaluations": 4000,
              "min_counters": {"rule_outcomes_checked": 60000, "responses_parsed": 4000, "over_limit_stubs_checked": 300}},
    "thorough": {"shards": 16, "cases": 800, "timeout_s": 3300, "min_evaluations": 100000,
                 "min_counters": {"rule_outcomes_checked": 1200000}},
}
_UID = itertools.count()
OUTCOMES = ["fail", "fail", "response", "pass", "pass", "info", "fingerprint", "metadata", "metadata_key", "none", "nonresp",
            "raise", "raise_content", "skip", "missing_req", "missing_group", "dep_failed", "disabled", "badkey_none", "badkey_empty", "badkey_int",
            "badkey_bytes", "reserved_type", "reserved_keyname", "size_under", "size_at", "size_over", "nokey_metadata_with_key",
            "nonresp_false", "nonresp_zero", "nonresp_empty_list", "nonresp_empty_dict", "nonresp_empty_str", "nonresp_true", "nonresp_str"]
HEADING = {"rule": "reports", "pass": "pass", "info": "info", "fingerprint": "fingerprints", "none": "none"}
SHOW_OPTS = [None, ["rule"], ["pass", "info"], ["none"], ["rule", "pass", "info", "none", "metadata", "fingerprint"], ["metadata"], ["fingerprint", "none"]]


CONFIGURED_LIMIT_CHILD = r"""
import io, json, os, sys
os.chdir(sys.argv[1])
os.environ["HOME"] = sys.argv[1]
where, limit = sys.argv[2], int(sys.argv[3])
target = {"dir": ".insights.yaml", "user": os.path.join(".local", "insights.yaml")}[where]
os.makedirs(os.path.dirname(os.path.abspath(target)), exist_ok=True)
with open(target, "w") as f:
    f.write("defaults:\n  max_detail_length: %d\n" % limit)
from insights import settings
from insights.core import dr
from insights.core.evaluators import SingleEvaluator
from insights.core.plugins import make_fail, rule, component
@component()
def present():
    return 1
@rule(present)
def big(p):
    return make_fail("BIG", data="x" * (limit + 50))
@rule(present)
def small(p):
    return make_fail("SMALL", data="y" * 5)
br = dr.Broker()
resp = SingleEvaluator(br, stream=io.StringIO()).process(dr.get_dependency_graph(big) | dr.get_dependency_graph(small) if hasattr(dict, "__or__") else None)
out = {"configured": settings.defaults.get("max_detail_length"), "reports": [dict(r.get("details") or {}) for r in resp.get("reports", [])]}
sys.stdout.write(json.dumps(out))
"""


def directed(tier):
    return [{"kind": "configured_limit", "where": w, "limit": lim} for w in ("dir", "user") for lim in (200, 1000)]


def run_configured_limit(spec, ctx):
    """the size limit as a USER configures it (./.insights.yaml, ~/.local/insights.yaml) - read when insights.settings is first
    imported, hence in a new interpreter with its own working directory and HOME"""
    import shutil
    import subprocess
    import tempfile
    base = tempfile.mkdtemp(prefix="vpc12s_")
    try:
        cp = subprocess.run([sys.executable, "-c", CONFIGURED_LIMIT_CHILD, base, spec["where"], str(spec["limit"])], stdout=subprocess.PIPE,
                            stderr=subprocess.PIPE, timeout=300, env=dict(os.environ))
        if cp.returncode != 0:
            ctx.count("harness_errors")
            ctx.sets.setdefault("harness_error_texts", set()).add("configured-limit child: " + cp.stderr.decode("utf-8", "replace")[-600:])
            return False
        doc = json.loads(cp.stdout.decode())
        ctx.count("configured_limits_checked")
        big = [d for d in doc["reports"] if d.get("error_key") == "BIG"]
        small = [d for d in doc["reports"] if d.get("error_key") == "SMALL"]
        w = {"configured_in": spec["where"], "limit": spec["limit"], "settings_value": doc["configured"]}
        if len(big) != 1 or len(small) != 1:
            ctx.violation("response-not-reported-exactly-once", dict(w, reports=doc["reports"][:3]))
        elif "max_detail_length_error" not in big[0] or "data" in big[0]:
            ctx.violation("response-over-the-configured-limit-reported-in-full", dict(w, details_keys=sorted(big[0]), length=len(str(big[0]))))
        elif "data" not in small[0]:
            ctx.violation("malformed-response-entry", dict(w, problems=["small payload replaced by a stub"]))
        return True
    finally:
        shutil.rmtree(base, ignore_errors=True)


def gen_case(rng, tier, idx):
    rules = []
    for i in range(rng.randint(1, 25)):
        oc = rng.choice(OUTCOMES)
        rules.append({"outcome": oc, "key": "KEY%d" % rng.randint(0, 3), "module": rng.randrange(3),
                      "tags": rng.sample(["t1", "t2", "t3"], rng.randint(0, 2)),
                      "links": {"kcs": ["http://x/%d" % i]} if rng.random() < 0.5 else None,
                      "mk": rng.choice(["fail", "pass", "info", "fingerprint"]), "fill": rng.choice(["x", "x", "\u00e9", "\u4e2d", "tuples"]),
                      "payload": rng.choice([{}, {"n": i}, {"l": [1, "two", None]}, {"d": {"a": {"b": i}}}, {"s": "x" * rng.randint(0, 50)}]),
                      # content templates (rendered by formatters asked to): fine, undefined variable, type error while
                      # rendering this very response, syntax error
                      "content": rng.choice([None, None, None, "plain text", "value {{ n }} key {{ error_key }}", "{{ undefined_zz.attr }}",
                                             "{{ n + 'x' }}{{ l + 1 }}{{ d + 1 }}{{ s + 1 }}", "{% if %}", "{{ l[7].x.y }}", "{{ 1 / 0 }}"])})
    if len(rules) >= 3 and rng.random() < 0.2:
        a = rng.randrange(len(rules) - 1)
        for j in rng.sample(range(a + 1, len(rules)), rng.randint(1, min(2, len(rules) - a - 1))):
            rules[j]["same_name_as"] = a
            rules[j]["module"] = rules[a]["module"]
            rules[j]["key"] = "KEYT%d" % j
    # the broker is not always fresh: another rule may have been evaluated on it before the evaluator / formatter is attached
    return {"rules": rules, "limit": rng.choice([None, None, 300, 1000]), "prefire": rng.random() < 0.3}


def nontrivial(spec):
    if spec.get("kind") == "configured_limit":
        return True
    return len(spec["rules"]) >= 3 and len(set(r["outcome"] for r in spec["rules"])) >= 3


def variants():
    out = [("single", {}), ("single_incremental", {}), ("single_pool", {}), ("insights", {})]
    for fmt in ("json", "yaml"):
        for missing in (False, True):
            for show in SHOW_OPTS:
                out.append((fmt, {"missing": missing, "show_rules": show}))
    out.append(("json", {"missing": True, "show_rules": None, "render_content": True}))
    out.append(("json", {"missing": False, "show_rules": SHOW_OPTS[-1], "render_content": True}))
    return out


def run_case(spec, ctx):
    if "variant" in spec and isinstance(spec.get("rules"), dict):
        spec = spec["rules"]           # a replay file holds (rule set, variant): the rule set is evaluated under every variant again
    if spec.get("kind") == "configured_limit":
        return run_configured_limit(spec, ctx)
    import yaml
    from insights import settings
    from insights.core import dr
    from insights.core.evaluators import InsightsEvaluator, SingleEvaluator
    from insights.core.exceptions import SkipComponent
    from insights.core.plugins import (Response, component, make_fail, make_fingerprint, make_info, make_metadata,
                                       make_metadata_key, make_pass, make_response, rule)
    from insights.formats._json import JsonFormat
    from insights.formats._yaml import YamlFormat
    from vpmon import gen_graph as G
    MK = {"fail": make_fail, "pass": make_pass, "info": make_info, "fingerprint": make_fingerprint, "response": make_response}
    TYPE = {"fail": "rule", "response": "rule", "pass": "pass", "info": "info", "fingerprint": "fingerprint"}
    KEYNAME = {"rule": "error_key", "pass": "pass_key", "info": "info_key", "fingerprint": "fingerprint_key"}
    uid = next(_UID)
    mods = []
    pkg = "vpc12s%d" % uid
    sys.modules[pkg] = types.ModuleType(pkg)
    sys.modules[pkg].__path__ = []
    for k in range(3):
        name = "%s.plugin_%d" % (pkg, k)
        sys.modules[name] = types.ModuleType(name)
        setattr(sys.modules[pkg], "plugin_%d" % k, sys.modules[name])
        mods.append(name)
    created = []
    old_limit = settings.defaults["max_detail_length"]
    limit = spec["limit"] or old_limit
    settings.defaults["max_detail_length"] = limit
    try:
        def mkcomp(name, fn):
            fn.__name__ = fn.__qualname__ = name
            fn.__module__ = mods[0]
            c = component()(fn)
            created.append(c)
            setattr(sys.modules[mods[0]], name, c)
            return c
        present = mkcomp("present%d" % uid, lambda: 1)

        def _absent():
            raise SkipComponent("absent")

        def _failed():
            raise RuntimeError("dep failed")
        absent = mkcomp("absent%d" % uid, _absent)
        failed = mkcomp("failed%d" % uid, _failed)
        rules = []
        lengths = {}
        for i, rs in enumerate(spec["rules"]):
            oc, key = rs["outcome"], rs["key"]

            def sized(target, mk, key, fill="x"):
                """a payload whose response is exactly `target` characters long as the statement measures it (the details
                as a string): plain ASCII, accented text, or a list of one-element tuples - serialised forms of the last
                two are much longer resp. shorter than what is measured"""
                probe = dict(mk(key, data=""))
                base = len(str(probe))
                if fill == "tuples":
                    payload = [("a",)] * max(0, (target - base) // 8 - 3)
                    d = dict(probe)
                    d["data"] = payload + [""]
                    pad = target - len(str(d))
                    if pad >= 0:
                        return payload + ["x" * pad]
                    fill = "x"
                return (fill if len(fill) == 1 else "x") * max(0, target - base)

            def body(*a, _rs=rs, _i=i):
                oc, key, mk = _rs["outcome"], _rs["key"], MK[_rs["mk"]]
                if oc in MK:
                    return MK[oc](key, **dict(_rs["payload"]))
                if oc == "metadata":
                    return make_metadata(**{"m%d_%d" % (uid, _i): _i})
                if oc == "metadata_key":
                    return make_metadata_key("mk%d_%d" % (uid, _i), _i)
                if oc == "none":
                    return None
                if oc == "nonresp":
                    return {"type": "rule", "error_key": key}
                if oc.startswith("nonresp_"):
                    return {"false": False, "zero": 0, "empty_list": [], "empty_dict": {}, "empty_str": "", "true": True, "str": "text"}[oc[8:]]
                if oc == "raise":
                    raise ValueError("rule-body-%d" % _i)
                if oc == "raise_content":
                    from insights.core.exceptions import ContentException
                    raise ContentException("rule-body-content-%d" % _i)
                if oc == "skip":
                    raise SkipComponent("deliberate")
                if oc == "badkey_none":
                    return mk(None, n=1)
                if oc == "badkey_empty":
                    return mk("", n=1)
                if oc == "badkey_int":
                    return mk(5, n=1)
                if oc == "badkey_bytes":
                    return mk(b"KEY", n=1)
                if oc == "reserved_type":
                    return mk(key, type="x")
                if oc == "reserved_keyname":
                    return mk(key, **{mk.key_name: "y"})
                if oc == "nokey_metadata_with_key":
                    return make_metadata(type="z")
                if oc in ("size_under", "size_at", "size_over"):
                    tgt = limit + {"size_under": -1, "size_at": 0, "size_over": 1}[oc]
                    r = mk(key, data=sized(tgt, mk, key, _rs.get("fill", "x")))
                    return r
                return mk(key)
            body.__name__ = body.__qualname__ = "r%d_%d" % (uid, i)
            if rs.get("same_name_as") is not None:
                # rules produced by one factory function share module and qualified name
                body.__name__ = body.__qualname__ = "r%d_%d" % (uid, rs["same_name_as"])
            body.__module__ = mods[rs["module"]]
            if oc == "missing_req":
                deps = [present, absent]
            elif oc == "missing_group":
                deps = [present, [absent, failed]]
            elif oc == "dep_failed":
                deps = [failed]
            else:
                deps = [present, [absent, present]]
            kw = {"tags": list(rs["tags"])}
            if rs["links"]:
                kw["links"] = rs["links"]
            if rs.get("content"):
                kw["content"] = rs["content"]
            r = rule(*deps, **kw)(body)
            created.append(r)
            setattr(sys.modules[mods[rs["module"]]], body.__name__, r)
            if oc == "disabled":
                dr.set_enabled(r, False)
            rules.append(r)
        graph = {}
        for r in rules:
            graph.update(dr.get_dependency_graph(r))
        warm = None
        if spec.get("prefire"):
            def warm_body(*a):
                return make_pass("WARM_UP")
            warm_body.__name__ = warm_body.__qualname__ = "warm%d" % uid
            warm_body.__module__ = mods[0]
            warm = rule(present)(warm_body)
            created.append(warm)
            setattr(sys.modules[mods[0]], warm_body.__name__, warm)
        for vname, opts in variants():
            case = {"rules": spec, "variant": [vname, opts]}
            br = dr.Broker()
            if warm is not None:
                dr.run(dr.get_dependency_graph(warm), broker=br)
                ctx.count("evaluations_on_a_broker_that_already_ran_a_rule")
            buf = io.StringIO()
            resp = None
            try:
                if vname == "single":
                    resp = SingleEvaluator(br, stream=buf).process(dict(graph))
                elif vname == "single_incremental":
                    resp = SingleEvaluator(br, stream=buf, incremental=True).process(dict(graph))
                elif vname == "single_pool":
                    resp = SingleEvaluator(br, stream=buf, incremental=True).process(dict(graph), parallel=True)
                elif vname == "insights":
                    resp = InsightsEvaluator(br, system_id="sys-1", stream=buf).process(dict(graph))
                elif vname == "json":
                    with JsonFormat(br, missing=opts["missing"], show_rules=opts["show_rules"], stream=buf, render_content=opts.get("render_content", False)):
                        dr.run(dict(graph), broker=br)
                    resp = json.loads(buf.getvalue())
                else:
                    with YamlFormat(br, missing=opts["missing"], show_rules=opts["show_rules"], stream=buf):
                        dr.run(dict(graph), broker=br)
                    resp = yaml.load(buf.getvalue(), Loader=yaml.UnsafeLoader)
            except Exception as ex:
                ctx.violation("evaluator-raised", {"variant": vname, "options": opts, "exc": repr(ex)[:300]}, spec=case)
                ctx.note_case(case, nontrivial(spec))
                continue
            ctx.count("responses_parsed")
            ctx.seen("evaluator_variants", vname)
            missing_opt = opts.get("missing", True)
            show = opts.get("show_rules")
            if vname in ("json", "yaml"):
                if show is None:
                    hidden = {"none"}
                else:
                    hidden = set(t for t in ("rule", "pass", "info", "none", "fingerprint") if t not in show)
                show_skips = missing_opt
                show_meta = show is None or "metadata" in show
            else:
                hidden, show_skips, show_meta = set(), True, True
            # index the response
            entries = {}
            for t, h in HEADING.items():
                lst = resp.get(h)
                if t in hidden:
                    if lst is not None:
                        ctx.violation("heading-shown-though-filtered-out", {"heading": h, "options": opts, "variant": vname}, spec=case)
                    continue
                for e in (lst or []):
                    entries.setdefault(e.get("component"), []).append((h, e))
            skips = resp.get("skips")
            if not show_skips and skips is not None:
                ctx.violation("skips-shown-without-missing-option", {"options": opts, "variant": vname}, spec=case)
            skipby = {}
            for s in (skips or []):
                skipby.setdefault(s.get("rule_fqdn"), []).append(s)
            meta = (resp.get("system") or {}).get("metadata")
            if not show_meta and meta is not None:
                ctx.violation("metadata-shown-though-filtered-out", {"options": opts, "variant": vname}, spec=case)
            expected_components = set()

            def typed_of(rs_):
                oc_ = rs_["outcome"]
                if oc_ in MK or oc_ in ("size_under", "size_at", "size_over"):
                    return (TYPE[oc_] if oc_ in MK else TYPE[rs_["mk"]]), rs_["key"]
                if oc_ == "none":
                    return "none", "NONE_KEY"
                return None, None
            groups = collections.defaultdict(list)
            for i, r in enumerate(rules):
                groups[dr.get_name(r)].append(i)
            for name_, members in groups.items():
                if len(members) < 2:
                    continue
                # rules sharing module and qualified name (one factory function): entries cannot be attributed by name alone;
                # typed entries are attributed by (name, key), everything else is accounted per name
                ctx.count("groups_of_rules_sharing_a_name")
                vis = [i for i in members if typed_of(spec["rules"][i])[0] is not None and typed_of(spec["rules"][i])[0] not in hidden]
                if len(entries.get(name_, [])) != len(vis):
                    ctx.violation("response-not-reported-exactly-once", {"rules_sharing_the_name": members, "entries": len(entries.get(name_, [])), "expected": len(vis),
                                                                         "variant": vname, "options": opts}, spec=case)
                nmiss = sum(1 for i in members if spec["rules"][i]["outcome"] in ("missing_req", "missing_group", "dep_failed"))
                if show_skips and len(skipby.get(name_, [])) != nmiss:
                    ctx.violation("skip-entry-not-reported-exactly-once", {"rules_sharing_the_name": members, "entries": len(skipby.get(name_, [])), "expected": nmiss,
                                                                           "variant": vname, "options": opts}, spec=case)
            for i, (r, rs) in enumerate(zip(rules, spec["rules"])):
                oc, key = rs["outcome"], rs["key"]
                name = dr.get_name(r)
                found = entries.get(name, [])
                sk = skipby.get(name, [])
                if len(groups[name]) > 1:
                    t_, k_ = typed_of(rs)
                    found = [x for x in found if t_ is not None and x[1].get("key") == k_ and x[1].get("type") == t_]
                    ambiguous = t_ is not None and sum(1 for j in groups[name] if typed_of(spec["rules"][j]) == (t_, k_)) > 1
                    if ambiguous:
                        # several same-named rules with the same type and key (e.g. two 'none' results): their entries cannot be
                        # told apart, they are accounted by the per-name count above only
                        if t_ not in hidden:
                            expected_components.add(name)
                        ctx.count("rule_outcomes_checked")
                        continue
                    if oc in ("missing_req", "missing_group", "dep_failed"):
                        want = {"missing_req": [dr.get_name(absent)], "missing_group": [dr.get_name(absent), dr.get_name(failed)], "dep_failed": [dr.get_name(failed)]}[oc]
                        sk = [x for x in sk if all(n in x.get("details", "") for n in want) and dr.get_name(present) not in x.get("details", "")][:1]
                    else:
                        sk = []
                exc = br.exceptions.get(r, [])
                ctx.count("rule_outcomes_checked")
                ctx.seen("outcome_kinds", oc)
                w = {"rule": i, "outcome": oc, "variant": vname, "options": opts}
                typed = None
                if oc in MK or oc in ("size_under", "size_at", "size_over"):
                    typed = TYPE[oc] if oc in MK else TYPE[rs["mk"]]
                    ekey = key
                elif oc == "none":
                    typed, ekey = "none", "NONE_KEY"
                if typed is not None:
                    if sk or exc:
                        ctx.violation("typed-response-also-skipped-or-failed", dict(w, skips=len(sk), exceptions=[repr(e)[:100] for e in exc]), spec=case)
                    if typed in hidden:
                        if found:
                            ctx.violation("filtered-type-reported", w, spec=case)
                        continue
                    expected_components.add(name)
                    if len(found) != 1:
                        ctx.violation("response-not-reported-exactly-once", dict(w, times=len(found), headings=[h for h, e in found]), spec=case)
                        continue
                    h, e = found[0]
                    base_mod = mods[rs["module"]].split(".")[-1]
                    problems = []
                    if h != HEADING[typed]:
                        problems.append("heading %s" % h)
                    if e.get("type") != typed:
                        problems.append("type %r" % e.get("type"))
                    if e.get("key") != ekey:
                        problems.append("key %r" % e.get("key"))
                    if sorted(e.get("tags") or []) != sorted(rs["tags"]):
                        problems.append("tags %r" % e.get("tags"))
                    if (e.get("links") or {}) != (rs["links"] or {}):
                        problems.append("links %r" % e.get("links"))
                    if e.get("%s_id" % typed) != "%s|%s" % (base_mod, ekey):
                        problems.append("id %r" % e.get("%s_id" % typed))
                    if vname == "insights" and e.get("system_id") != "sys-1":
                        problems.append("system_id %r" % e.get("system_id"))
                    det = dict(e.get("details") or {})
                    if oc in MK:
                        expd = dict(rs["payload"])
                        expd.update({"type": typed, KEYNAME[typed]: key})
                        if det != expd:
                            problems.append("details %r" % (det,))
                    elif oc == "size_over":
                        ctx.count("over_limit_stubs_checked")
                        if set(det) != {"type", KEYNAME[typed], "max_detail_length_error"} or det.get("type") != typed or det.get(KEYNAME[typed]) != key \
                                or det.get("max_detail_length_error") != limit + 1:
                            problems.append("over-limit stub %r" % (dict((k, (v if len(str(v)) < 60 else "<%d chars>" % len(str(v)))) for k, v in det.items()),))
                    elif oc in ("size_under", "size_at"):
                        ctx.count("at_or_under_limit_payloads_checked")
                        if "max_detail_length_error" in det or "data" not in det:
                            problems.append("payload within the limit replaced by a stub (len %s, limit %d)" % (det.get("max_detail_length_error"), limit))
                    if problems:
                        ctx.violation("malformed-response-entry", dict(w, problems=problems), spec=case)
                elif oc in ("missing_req", "missing_group", "dep_failed"):
                    if found or exc:
                        ctx.violation("rule-with-missing-dependencies-reported-otherwise", dict(w, found=len(found), exceptions=len(exc)), spec=case)
                    if show_skips:
                        if len(sk) != 1:
                            ctx.violation("skip-entry-not-reported-exactly-once", dict(w, times=len(sk)), spec=case)
                        else:
                            details = sk[0].get("details", "")
                            expnames = {"missing_req": [dr.get_name(absent)], "missing_group": [dr.get_name(absent), dr.get_name(failed)],
                                        "dep_failed": [dr.get_name(failed)]}[oc]
                            notexp = [dr.get_name(present)]
                            if not all(n in details for n in expnames) or any(n in details for n in notexp) or sk[0].get("reason") != "MISSING_REQUIREMENTS":
                                ctx.violation("skip-entry-names-wrong-dependencies", dict(w, details=details[:300]), spec=case)
                elif oc.startswith("nonresp_") or oc in ("nonresp", "raise", "raise_content", "badkey_none", "badkey_empty", "badkey_int", "badkey_bytes", "reserved_type", "reserved_keyname",
                            "nokey_metadata_with_key"):
                    if found or sk:
                        ctx.violation("rejected-rule-result-reported", dict(w, found=[h for h, e in found], skips=len(sk)), spec=case)
                    if len(exc) != 1:
                        ctx.violation("rejected-rule-result-not-recorded-as-one-error", dict(w, exceptions=[repr(e)[:100] for e in exc]), spec=case)
                elif oc in ("skip", "disabled"):
                    if found or sk or exc:
                        ctx.violation("silent-outcome-left-a-trace", dict(w, found=len(found), skips=len(sk), exceptions=len(exc)), spec=case)
                elif oc == "metadata":
                    if exc or found or sk:
                        ctx.violation("metadata-rule-reported-otherwise", w, spec=case)
                    if show_meta and (meta or {}).get("m%d_%d" % (uid, i)) != i:
                        ctx.violation("metadata-not-aggregated", dict(w, metadata=repr(meta)[:200]), spec=case)
                elif oc == "metadata_key":
                    if exc or found or sk:
                        ctx.violation("metadata-key-rule-reported-otherwise", w, spec=case)
                    if resp.get("mk%d_%d" % (uid, i)) != i:
                        ctx.violation("metadata-key-not-reported", w, spec=case)
            # no drops, no duplicates, nothing foreign
            for name, lst in entries.items():
                if name not in expected_components:
                    ctx.violation("unexpected-entry-in-response", {"component": name, "headings": [h for h, e in lst], "variant": vname, "options": opts}, spec=case)
            rule_names = set(dr.get_name(r) for r in rules)
            for name in skipby:
                if name not in rule_names:
                    ctx.violation("foreign-skip-entry", {"rule_fqdn": name}, spec=case)
            ctx.note_case(case, nontrivial(spec))
        ctx.evaluations -= 1
        return False
    finally:
        settings.defaults["max_detail_length"] = old_limit
        for c in created:
            G._unregister(c)
        for m in mods:
            sys.modules.pop(m, None)
        sys.modules.pop(pkg, None)
