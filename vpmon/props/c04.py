"""C04 - evaluation results do not depend on scheduling."""
import collections
import json
import os
import random
import subprocess
import sys
import threading
import time

ID = "C04"
LEVEL = "exploration"
RULE = ("random graphs with 1-6 disconnected parts and deterministic bodies; for each graph the digest "
        "{values, recorded failures as (type,text), missing-dependency reports} of the single-pass dr.run is compared "
        "with: K random linear extensions forced through dr.run_components, run_incremental with fresh brokers (union) "
        "and with one shared broker, dr.run_all on ThreadPoolExecutor(1/2/4/8) with fresh and shared broker while bodies "
        "yield/sleep at random, and the same specification rebuilt and run in child interpreters under a sweep of "
        "PYTHONHASHSEED; get_subgraphs is checked to be a partition closed under edges; a share of the graphs runs "
        "datasources with a HostContext in the shared broker (what real collection dispatches to the pool); "
        "three single passes with dr.get_dependents returning sets that iterate in a shuffled order; a share of the graphs has "
        "the broker of a loaded archive (SerializedArchiveContext + pre-loaded values, compared across run / run_incremental / "
        "run_all), hubs with several failing consumers, failing datasources that back several specs; pool runs use a 1 us "
        "switch interval and a yield inside Broker.__iter__/keys/items/values; plus real spec factories collected and "
        "persisted serially vs on pools, and the repository's own graph serial vs incremental vs pool; "
        "non-trivial = >= 2 parts with >= 2 nodes each or >= 4 nodes with an edge; distinct by hash of the spec")
ASSUMPTIONS = [
    "component bodies are deterministic functions of their arguments (the statement's premise)",
    "digests ignore traceback texts and execution times",
    "hash-seed dependence is observed through child interpreters (PYTHONHASHSEED) that rebuild the same specification",
    "thread interleavings are those the GIL scheduler produced under yield/sleep injection inside component bodies; they are counted, not enumerated",
]
REACH = [
    "insights/core/serde.py::marshal",
    "insights/core/serde.py::Hydration.dehydrate",
    "insights/core/dr.py::run_all",
    "insights/core/dr.py::generate_incremental",
    "insights/core/dr.py::get_subgraphs",
    "insights/core/dr.py::run_components",
    "insights/core/dr.py::run_incremental",
    "insights/core/plugins.py::datasource.invoke",
    "insights/contrib/toposort.py::toposort_flatten",
]
PLAN = {
    "quick": {"shards": 8, "cases": 100, "timeout_s": 900, "min_evaluations": 600,
              "min_counters": {"pool_runs": 1500, "extension_runs": 1000, "hashseed_child_digests": 1500}},
    "thorough": {"shards": 16, "cases": 700, "timeout_s": 3300, "min_evaluations": 5000,
                 "min_counters": {"pool_runs": 30000}},
}
POOLS = (1, 2, 4, 8)


def gen_case(rng, tier, idx):
    from vpmon import gen_graph as G
    if idx < (1 if tier == "quick" else 6):
        return {"kind": "realgraph", "archive_seed": rng.getrandbits(30), "fault_rate": rng.choice([0.2, 0.5]), "ext_seed": rng.getrandbits(32)}
    if idx % 5 == 4:
        # a collection-like graph of real spec factories, persisted while it runs (what insights.collect does)
        from vpmon.props import c11
        c = c11.gen_case(rng, tier, idx)
        c["specs"] = [x for x in c["specs"] if not x["kind"].startswith("container")]
        c.pop("pool", None)
        return {"kind": "collect", "collect": c, "ext_seed": rng.getrandbits(32)}
    host = rng.random() < 0.3
    g = G.gen_spec(rng, tier, max_nodes=16 if tier == "quick" else 36, parts=rng.randint(1, 6), fault_rate=0.2,
                   allow_seeded=False, host_ds=host,
                   kinds=["plain", "plain", "implicit", "implicit", "implicit", "component", "combiner", "combiner", "condition", "incident", "fact",
                          "rule", "rule", "datasource", "datasource", "parser", "parser", "point"])
    if rng.random() < 0.4:
        # several mutually independent consumers of one spec (or of one ordinary component) that all fail: what is
        # recorded for them, and against the spec, must not depend on which of them happens to run first
        nodes = g["nodes"]
        hubs = [i for i, nd in enumerate(nodes) if nd["kind"] in ("point", "datasource", "component")]
        if hubs:
            h = rng.choice(hubs)
            for _ in range(rng.randint(2, 4)):
                nodes.append({"kind": rng.choice(["combiner", "plain", "condition", "parser"]), "part": nodes[h]["part"], "written": [h], "opt": [],
                              "outcome": rng.choice(["boom", "valerr", "keyerr", "cpe"]), "enabled": True, "seeded": False,
                              "continue_on_error": True, "elem_outcomes": [rng.choice(["boom", "cpe", "value"]) for _ in range(4)]})
            g["junk"] = g["junk"] + [0] * (len(nodes) - len(g["junk"]))
    if rng.random() < 0.35:
        # a failing datasource that backs one spec directly and further specs through datasources built on it (a listing
        # used by per-item specs): the set of specs its failure is recorded against must not depend on set iteration order
        nodes = g["nodes"]
        impls = [i for i, nd in enumerate(nodes) if nd["kind"] == "impl"]
        if impls:
            d = rng.choice(impls)
            nodes[d]["outcome"] = rng.choice(["boom", "cpe", "valerr", "timeout"])
            nodes[d]["enabled"] = True
            for _ in range(rng.randint(1, 3)):
                nodes.append({"kind": "impl", "implements": True, "part": nodes[d]["part"], "written": [d], "opt": [], "opt_single": False,
                              "outcome": "value", "enabled": True, "seeded": False, "multi": False, "nelem": 2, "host": bool(host)})
                nodes.append({"kind": "point", "part": nodes[d]["part"], "impls": [len(nodes) - 1], "written": [], "opt": [], "outcome": "value",
                              "enabled": True, "seeded": False, "multi": False})
            g["junk"] = g["junk"] + [0] * (len(nodes) - len(g["junk"]))
    case = {"graph": g, "host": host, "store_skips": rng.random() < 0.4, "ext_seed": rng.getrandbits(32)}
    if rng.random() < 0.2:
        # a graph that is not closed under dependencies (a caller-filtered dictionary): what is left out is never evaluated,
        # whichever driver runs the rest
        case["subdict_drop"] = sorted(rng.sample(range(len(g["nodes"])), rng.randint(1, max(1, len(g["nodes"]) // 4))))
    if rng.random() < 0.25:
        # the broker of a loaded archive: SerializedArchiveContext plus pre-loaded values (no pre-loaded component is a
        # direct dependency of another one: that makes dr.run raise KeyError on the unchanged tree, outside the statement)
        nodes = g["nodes"]
        seeds = []
        for i in rng.sample(range(len(nodes)), min(len(nodes), rng.randint(1, 4))):
            if not any(i in G.all_deps(nodes[j]) or j in G.all_deps(nodes[i]) for j in seeds):
                seeds.append(i)
        case["serialized_seeds"] = sorted(seeds)
    return case


def nontrivial(spec):
    from vpmon import gen_graph as G
    if spec.get("kind") == "collect":
        return len(spec["collect"]["specs"]) >= 3
    if spec.get("kind") == "realgraph":
        return True
    nodes = spec["graph"]["nodes"]
    parts = collections.Counter(nd["part"] for nd in nodes)
    if sum(1 for p, k in parts.items() if k >= 2) >= 2:
        return True
    return len(nodes) >= 4 and any(G.all_deps(nd) for nd in nodes)


def digest(brokers, b):
    from insights.core import dr
    from vpmon import gen_graph as G
    inst, exc, miss = {}, {}, {}
    problems = []
    seen = set()
    for br in brokers:
        if id(br) in seen:
            continue
        seen.add(id(br))
        for k, v in br.instances.items():
            i = b.index.get(k)
            if i is None:
                continue
            if i in inst:
                problems.append(("component-valued-in-two-brokers", i))
            inst[i] = G.canon(v)
        for k, v in br.exceptions.items():
            i = b.index.get(k, dr.get_name(k))
            exc.setdefault(str(i), []).extend((type(e).__name__, str(e)) for e in v)
        for k, v in br.missing_requirements.items():
            i = b.index.get(k, dr.get_name(k))
            miss[str(i)] = [[b.index.get(x, -1) for x in v[0]], [[b.index.get(x, -1) for x in g] for g in v[1]]]
    for k in exc:
        exc[k].sort()
    return json.dumps({"inst": dict((str(k), v) for k, v in inst.items()), "exc": exc, "miss": miss}, sort_keys=True), problems


def mk_broker(spec, b=None):
    from insights.core import dr
    from insights.core.context import HostContext, SerializedArchiveContext
    br = dr.Broker()
    br.store_skips = spec["store_skips"]
    if spec["host"]:
        br[HostContext] = HostContext()
    if spec.get("serialized_seeds") and b is not None:
        br[SerializedArchiveContext] = SerializedArchiveContext()
        for i in spec["serialized_seeds"]:
            br[b.comps[i]] = ("seed", i)
    return br


def the_graph(spec, b):
    from vpmon import gen_graph as G
    graph = G.full_graph(b)
    if spec.get("subdict_drop"):
        drop = set(spec["subdict_drop"])
        sub = dict((k, v) for k, v in graph.items() if b.index.get(k) not in drop)
        if sub:
            return sub
    return graph


def single_pass(spec):
    """build + one dr.run; used by the parent and by the hash-seed children"""
    from insights.core import dr
    from vpmon import gen_graph as G
    b = G.build(spec["graph"])
    try:
        graph = the_graph(spec, b)
        with G.recording() as rec:
            br = dr.run(dict(graph), broker=mk_broker(spec, b))
        d, _ = digest([br], b)
        order = [ev[3] for ev in rec.events if ev[2] == "order"]
        return d, [b.index.get(c, -1) for c in (order[0] if order else [])]
    finally:
        b.cleanup()


def child_main(path):
    import logging
    logging.disable(logging.CRITICAL)
    with open(path) as f:
        specs = json.load(f)
    out = []
    for spec in specs:
        try:
            d, order = single_pass(spec)
            out.append({"digest": d, "order": order})
        except Exception as ex:
            out.append({"digest": "RAISED %r" % (ex,), "order": []})
    sys.stdout.write(json.dumps(out))


def body_counts(events, n):
    c = collections.Counter()
    for ev in events:
        if ev[2] == "body":
            c[ev[3]] += 1
    return c


_CUID = [0]


def tree_digest(out):
    """relative path -> content for data files; metadata documents without the timing fields"""
    files = {}
    for d, _, names in os.walk(out):
        for n in names:
            p = os.path.join(d, n)
            rel = os.path.relpath(p, out)
            with open(p, "rb") as f:
                data = f.read()
            if rel.startswith("meta_data"):
                try:
                    doc = json.loads(data.decode())
                    doc.pop("exec_time", None)
                    doc.pop("ser_time", None)
                    doc["errors"] = [e.strip().splitlines()[-1] if isinstance(e, str) and e.strip() else e for e in (doc.get("errors") or [])]
                    data = json.dumps(doc, sort_keys=True).encode()
                except Exception:
                    pass
            files[rel] = data
    return files


def run_collect(spec, ctx):
    """serial vs thread-pool collection of the same specs, persisted while it runs"""
    import shutil
    import tempfile
    import types
    from concurrent.futures import ThreadPoolExecutor
    from insights.core import Parser, dr
    from insights.core.context import HostContext
    from insights.core.plugins import combiner, parser
    from insights.core.serde import Hydration
    from vpmon import gen_graph as G
    from vpmon.props import c11
    c = spec["collect"]
    _CUID[0] += 1
    uid = 100000 + _CUID[0]
    modname = "vpmon_c04.c%d" % uid
    sys.modules[modname] = types.ModuleType(modname)
    created = []
    base = tempfile.mkdtemp(prefix="vpc04_")
    old_switch = sys.getswitchinterval()
    try:
        root = os.path.join(base, "root")
        for rel, lines in c["files"].items():
            p = os.path.join(root, rel)
            os.makedirs(os.path.dirname(p), exist_ok=True)
            with open(p, "w", encoding="utf-8") as f:
                f.write("\n".join(lines))
        pts = c11.build_specset(c, root, uid, modname, created, [])
        created.extend(pts)
        parsers = []
        for k, pt in enumerate(pts):
            cls = type("P%d_%d" % (uid, k), (Parser,), {"__module__": modname, "parse_content": lambda self, content: setattr(self, "lines", list(content))})
            if c["specs"][k]["kind"] == "raw_file":
                continue
            pc = parser(pt)(cls)
            created.append(pc)
            parsers.append(pc)

        def summary(*vals):
            return len([v for v in vals if v is not None])
        summary.__name__ = summary.__qualname__ = "summary%d" % uid
        summary.__module__ = modname
        comb = combiner(optional=list(parsers))(summary)
        created.append(comb)
        graph = dr.get_dependency_graph(comb)
        for pt in pts:
            graph.update(dr.get_dependency_graph(pt))

        def collect(pool_size, out):
            br = dr.Broker()
            br[HostContext] = HostContext(root=root)
            pool = ThreadPoolExecutor(max_workers=pool_size) if pool_size else None
            h = Hydration(out, br[HostContext], pool=pool)
            br.add_observer(h.make_persister(set(pts)))
            try:
                if pool:
                    dr.run_all(dict(graph), br, pool)
                else:
                    dr.run(dict(graph), broker=br)
            finally:
                if pool:
                    pool.shutdown(wait=True)
            vals = {}
            for k, pc in enumerate(parsers):
                v = br.get(pc)
                vals["parser%d" % k] = None if v is None else ([x.lines for x in v] if isinstance(v, list) else v.lines)
            vals["summary"] = br.get(comb)
            exc = {}
            for key, lst in br.exceptions.items():
                exc[dr.get_name(key).split(".")[-1]] = sorted((type(e).__name__, str(e)[:200].replace(base, "<base>")) for e in lst)
            return vals, exc, tree_digest(out)
        ref = collect(0, os.path.join(base, "out_serial"))
        ctx.count("collections_serial")
        ctx.count("files_persisted_serial", len(ref[2]))
        sys.setswitchinterval(1e-6)
        for w in (2, 4, 8):
            out = os.path.join(base, "out_pool%d" % w)
            got = collect(w, out)
            ctx.count("pool_runs")
            ctx.count("collections_with_thread_pool")
            if got[0] != ref[0]:
                bad = [k for k in ref[0] if ref[0][k] != got[0].get(k)]
                ctx.violation("collected-values-differ-under-pool", {"pool": w, "keys": bad[:5], "serial": repr([ref[0][k] for k in bad[:2]])[:300], "pool_run": repr([got[0].get(k) for k in bad[:2]])[:300]})
            if got[1] != ref[1]:
                ctx.violation("recorded-failures-differ-under-pool", {"pool": w, "serial": ref[1], "pool_run": got[1]})
            if got[2] != ref[2]:
                a, b_ = ref[2], got[2]
                diff = sorted(k for k in set(a) | set(b_) if a.get(k) != b_.get(k))
                ctx.violation("persisted-archive-differs-under-pool", {"pool": w, "files": diff[:6],
                                                                       "serial": [repr(a.get(k))[:120] for k in diff[:2]], "pool_run": [repr(b_.get(k))[:120] for k in diff[:2]]})
            shutil.rmtree(out, ignore_errors=True)
    finally:
        sys.setswitchinterval(old_switch)
        for comp in created:
            G._unregister(comp)
        dr.COMPONENTS_BY_NAME.clear()
        sys.modules.pop(modname, None)
        shutil.rmtree(base, ignore_errors=True)


def run_realgraph(spec, ctx):
    """the repository's own ~2 600 components: serial vs incremental vs thread pools"""
    from vpmon import realgraph as R
    root, treat = R.make_archive(spec["archive_seed"], spec["fault_rate"])
    old_switch = sys.getswitchinterval()
    try:
        events, brokers, raised, g = R.evaluate(root, "serial")
        d0 = R.digest(brokers)
        ctx.count("real_graph_evaluations")
        ctx.count("components_valued", len(d0[0]))
        ctx.count("failures_recorded", sum(len(v) for v in d0[1].values()))
        sys.setswitchinterval(1e-6)
        for mode, w in (("incremental", 0), ("pool", 2), ("pool", 4), ("pool", 8)):
            events, brokers, raised, g = R.evaluate(root, mode, w)
            ctx.count("real_graph_evaluations")
            if mode == "pool":
                ctx.count("pool_runs")
                ctx.seen("_interleavings", hash(tuple(e[1] for e in events if e[2] == "set")[:4000]) & 0xffffffffffff)
            if raised is not None:
                ctx.violation("exception-escaped-evaluation", {"mode": mode, "pool": w, "exc": repr(raised)[:300]})
                continue
            d = R.digest(brokers)
            if d != d0:
                diff = {}
                for name, a, b_ in (("values", d0[0], d[0]), ("failures", d0[1], d[1])):
                    for k in sorted(set(a) | set(b_)):
                        if a.get(k) != b_.get(k) and len(diff) < 4:
                            diff["%s[%s]" % (name, k)] = {"serial": a.get(k), mode: b_.get(k)}
                for k in sorted(d0[2] ^ d[2])[:3]:
                    diff["missing[%s]" % k] = {"serial": k in d0[2], mode: k in d[2]}
                mech = "result-differs-under-" + mode
                if "dictionary changed size during iteration" in json.dumps(diff, default=repr):
                    mech = "shared-broker-iterated-while-worker-threads-fill-it"
                ctx.violation(mech, {"workload": "the repository's own component graph", "pool": w, "diff": diff})
    finally:
        sys.setswitchinterval(old_switch)
        R.cleanup(root)


def run_case(spec, ctx):
    from concurrent.futures import ThreadPoolExecutor
    from insights.core import dr
    from vpmon import gen_graph as G
    if spec.get("kind") == "collect":
        return run_collect(spec, ctx)
    if spec.get("kind") == "realgraph":
        return run_realgraph(spec, ctx)
    g = spec["graph"]
    b = G.build(g)
    rng = random.Random(spec["ext_seed"])
    try:
        graph = the_graph(spec, b)
        if len(graph) < len(b.comps):
            ctx.count("graphs_not_closed_under_dependencies")
        with G.recording() as rec:
            br0 = dr.run(dict((k, set(v)) for k, v in graph.items()), broker=mk_broker(spec, b))
        serialized = bool(spec.get("serialized_seeds"))
        if serialized:
            ctx.count("graphs_with_a_loaded_archive_broker")
        d0, pr = digest([br0], b)
        base_bodies = body_counts(rec.events, len(b.comps))
        spec["_d0"] = d0
        ctx.count("single_pass_runs")
        ctx.count("components_valued", len(br0.instances))
        ctx.count("failures_recorded", sum(len(v) for v in br0.exceptions.values()))
        ctx.count("missing_reports", len(br0.missing_requirements))

        def compare(name, brokers, events):
            d, problems = digest(brokers, b)
            for p in problems:
                ctx.violation(p[0], {"driver": name, "component": p[1]})
            if d != d0:
                a, c = json.loads(d0), json.loads(d)
                diff = {}
                for sect in ("inst", "exc", "miss"):
                    for k in set(a[sect]) | set(c[sect]):
                        if a[sect].get(k) != c[sect].get(k):
                            diff["%s[%s]" % (sect, k)] = {"single_pass": a[sect].get(k), name: c[sect].get(k)}
                mech = "result-differs-under-" + name.split(":")[0]
                if any("dictionary changed size during iteration" in json.dumps(v) for v in diff.values()):
                    mech = "shared-broker-iterated-while-worker-threads-fill-it"
                elif spec["host"] and any("signal only works in main thread" in json.dumps(v) for v in diff.values()):
                    mech = "datasource-fails-on-worker-thread-signal"
                ctx.violation(mech, {"driver": name, "diff": dict(list(diff.items())[:4])})
            bc = body_counts(events, len(b.comps))
            if bc != base_bodies:
                bad = dict((k, (base_bodies.get(k, 0), bc.get(k, 0))) for k in set(bc) | set(base_bodies) if bc.get(k, 0) != base_bodies.get(k, 0))
                ctx.violation("invocation-count-differs-under-" + name.split(":")[0], {"driver": name, "node:(single_pass,driver)": bad})

        # (a) forced linear extensions
        nk = 6 if ctx.tier == "quick" else 10
        if serialized:
            nk = 0          # run_components is below the step of dr.run that leaves out what a loaded archive already holds
        for k in range(nk):
            order = G.random_extension(rng, graph)
            ctx.seen("_extensions", hash(tuple(b.index.get(c, -1) for c in order)) & 0xffffffffffff)
            with G.recording() as rec:
                br = dr.run_components(order, graph, mk_broker(spec, b))
            compare("extension", [br], rec.events)
            ctx.count("extension_runs")
        # (e) partition
        subs = list(dr.get_subgraphs(graph))
        keysets = [set(s) for s in subs]
        union = set().union(*keysets) if keysets else set()
        if union != set(graph):
            ctx.violation("subgraphs-lose-components", {"lost": [b.index.get(c) for c in set(graph) - union], "extra": [b.index.get(c, dr.get_name(c)) for c in union - set(graph)]})
        if sum(len(k) for k in keysets) != len(union):
            ctx.violation("subgraphs-duplicate-components", {"sizes": [len(k) for k in keysets], "distinct": len(union)})
        where = {}
        for n_, ks in enumerate(keysets):
            for c in ks:
                where[c] = n_
        for c, deps in graph.items():
            for d in deps:
                if d in where and c in where and where[d] != where[c]:
                    ctx.violation("subgraphs-split-an-edge", {"component": b.index.get(c), "dependency": b.index.get(d)})
        ctx.count("partitions_checked")
        ctx.count("subgraphs", len(subs))
        # (f) iteration order of the dependents sets (unspecified for a set: any order is one the interpreter may produce)
        class Shuffled(set):
            def __iter__(self_):
                items = list(set.__iter__(self_))
                rng.shuffle(items)
                return iter(items)
        orig_gd = dr.get_dependents
        dr.get_dependents = lambda c: Shuffled(orig_gd(c))
        try:
            for k in range(3):
                try:
                    with G.recording() as rec:
                        br = dr.run(dict((k_, set(v)) for k_, v in graph.items()), broker=mk_broker(spec, b))
                    compare("set-order", [br], rec.events)
                except Exception as ex:
                    ctx.violation("driver-raised-under-set-order", {"exc": repr(ex)[:300]})
                ctx.count("set_order_runs")
        finally:
            dr.get_dependents = orig_gd
        # (b) incremental
        if not spec["host"] and not spec["store_skips"] and not serialized:
            with G.recording() as rec:
                brs = list(dr.run_incremental(dict(graph)))
            compare("incremental-fresh", brs, rec.events)
            ctx.count("incremental_runs")
        try:
            with G.recording() as rec:
                brk = mk_broker(spec, b)
                list(dr.run_incremental(dict(graph), broker=brk))
            compare("incremental-shared", [brk], rec.events)
        except Exception as ex:
            ctx.violation("driver-raised-under-incremental", {"exc": repr(ex)[:300]})
        ctx.count("incremental_runs")
        # (c) thread pools with yield/sleep injection
        local = random.Random(spec["ext_seed"] ^ 0x5a5a)

        def sleeper():
            x = local.random()
            if x < 0.5:
                time.sleep(0)
            elif x < 0.7:
                time.sleep(0.0002)
        b.sleep[0] = sleeper
        # a tiny switch interval makes the interpreter hand the GIL over every few byte codes: far more
        # distinct interleavings of the worker threads than the default 5 ms slice produces
        old_switch = sys.getswitchinterval()
        sys.setswitchinterval(1e-6 if (spec["ext_seed"] % 3) else old_switch)
        # yield injection at a real suspension point: Broker.__iter__/keys/items/values are Python-level methods, a
        # thread switch can happen between the creation of the dictionary iterator and its first step; giving the
        # other workers the GIL exactly there makes any iteration over a shared broker during a run visible
        saved_iters = {}
        for meth in ("__iter__", "keys", "items", "values"):
            saved_iters[meth] = getattr(dr.Broker, meth)

            def mk(orig):
                def yielding(self_):
                    it = iter(orig(self_))
                    ctx.count("broker_iterations_during_pool_runs")
                    time.sleep(0.0002)
                    return it
                return yielding
            setattr(dr.Broker, meth, mk(saved_iters[meth]))
        try:
            for w in POOLS:
                variants = ["shared"] if (spec["host"] or spec["store_skips"] or serialized) else ["fresh", "shared"]
                for var in variants:
                    try:
                        with G.recording() as rec:
                            with ThreadPoolExecutor(max_workers=w) as pool:
                                if var == "fresh":
                                    res = dr.run_all(dict(graph), None, pool)
                                else:
                                    brk = mk_broker(spec, b)
                                    dr.run_all(dict(graph), brk, pool)
                                    res = [brk]
                    except Exception as ex:
                        # the single pass over the same graph and broker content did not raise
                        mech = "shared-broker-iterated-while-worker-threads-fill-it" if "changed size during iteration" in repr(ex) else "driver-raised-under-pool"
                        ctx.violation(mech, {"driver": "pool:%d:%s" % (w, var), "exc": repr(ex)[:300]})
                        ctx.count("pool_runs")
                        continue
                    compare("pool:%d:%s" % (w, var), res, rec.events)
                    tids = [ev[1] for ev in rec.events if ev[2] == "set"]
                    remap = {}
                    seq = tuple(remap.setdefault(t, len(remap)) for t in tids)
                    ctx.seen("_interleavings", hash(seq) & 0xffffffffffff)
                    if len(remap) > 1:
                        ctx.count("pool_runs_with_several_worker_threads")
                        switches = sum(1 for x, y in zip(seq, seq[1:]) if x != y)
                        if switches >= len(remap):
                            ctx.count("pool_runs_with_interleaved_threads")
                    ctx.count("pool_runs")
        finally:
            b.sleep[0] = None
            sys.setswitchinterval(old_switch)
            for meth, orig in saved_iters.items():
                setattr(dr.Broker, meth, orig)
        if spec["host"]:
            ctx.count("graphs_with_host_context")
    finally:
        b.cleanup()


def run_shard(ctx):
    from vpmon.runner import default_loop, jdump
    mod = sys.modules[__name__]
    cases = []
    orig_gen = gen_case

    # default loop, but remember the specs for the hash-seed sweep
    def gen(rng, tier, idx):
        s = orig_gen(rng, tier, idx)
        cases.append(s)
        return s
    mod_gen = mod.gen_case
    mod.gen_case = gen
    try:
        default_loop(mod, ctx)
    finally:
        mod.gen_case = mod_gen
    # (d) PYTHONHASHSEED sweep in child interpreters
    seeds = range(8) if ctx.tier == "quick" else range(24)
    scratch = os.environ.get("VERIF_SCRATCH") or "/tmp"
    path = os.path.join(scratch, "c04_specs_%d.json" % ctx.shard)
    batch = [c for c in cases if "_d0" in c and c.get("kind") not in ("collect", "realgraph")]
    with open(path, "w") as f:
        f.write(jdump([dict((k, v) for k, v in c.items() if k != "_d0") for c in batch]))
    orders = collections.defaultdict(set)
    procs = []
    for hs in seeds:
        env = dict(os.environ)
        env["PYTHONHASHSEED"] = str(hs)
        procs.append((hs, subprocess.Popen([sys.executable, "-m", "vpmon.props.c04", "--child", path], env=env,
                                           stdout=subprocess.PIPE, stderr=subprocess.PIPE)))
        if len(procs) >= 4:
            _collect(procs, batch, orders, ctx)
            procs = []
    _collect(procs, batch, orders, ctx)
    for k, v in orders.items():
        if len(v) > 1:
            ctx.count("graphs_whose_run_order_varied_with_hash_seed")
    ctx.count("hash_seeds_swept", len(list(seeds)))
    for c in batch:
        c.pop("_d0", None)


def _collect(procs, batch, orders, ctx):
    for hs, p in procs:
        try:
            out, err = p.communicate(timeout=600)
        except subprocess.TimeoutExpired:
            p.kill()
            ctx.count("harness_errors")
            ctx.sets.setdefault("harness_error_texts", set()).add("hash-seed child %d timed out" % hs)
            continue
        if p.returncode != 0:
            ctx.count("harness_errors")
            ctx.sets.setdefault("harness_error_texts", set()).add("hash-seed child %d rc=%s %s" % (hs, p.returncode, err.decode("utf-8", "replace")[-800:]))
            continue
        res = json.loads(out.decode())
        for k, (c, rr) in enumerate(zip(batch, res)):
            ctx.count("hashseed_child_digests")
            orders[k].add(tuple(rr["order"]))
            if rr["digest"] != c["_d0"]:
                a = c["_d0"]
                ctx.violation("result-differs-under-hash-seed", {"PYTHONHASHSEED": hs, "single_pass_parent": a[:600], "child": rr["digest"][:600]},
                              spec=dict((kk, v) for kk, v in c.items() if kk != "_d0"))


if __name__ == "__main__":
    if len(sys.argv) > 2 and sys.argv[1] == "--child":
        child_main(sys.argv[2])
