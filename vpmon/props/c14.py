"""C14 - base parsers accept well-formed content and reject bad content as documented."""
import datetime
import itertools
import json

ID = "C14"
LEVEL = "exploration"
RULE = ("four sub-monitors driven through context_wrap: (cmd) a recording CommandParser subclass on outputs of 0-6 lines with "
        "every documented bad phrase in random letter case and position, extra_bad_lines, near-misses; (doc) JSONParser / "
        "YAMLParser on generated nested values rendered with random indentation / flow style, JSON preceded by noise "
        "lines, plus truncations, deleted brackets, injected tokens, null and empty documents - the set of exception types "
        "ever observed is recorded; (search) TextFileOutput get / in / keep_scan / last_scan / token_scan against a "
        "ten-line model on lines with ids; (time) LogFileOutput.get_after on logs rendered from a true timeline in four "
        "format shapes (with year, syslog without year, list, dict) with continuation lines, search terms and query times "
        "on / just before / just after a stamp, year-less logs across 31 Dec/1 Jan up to 1 s inside the edge of the documented "
        "330-day rule; one evaluation = one "
        "parser construction or query; non-trivial = the input has >= 2 lines and both outcomes are possible; distinct by "
        "case hash")
ASSUMPTIONS = [
    "scalar top-level JSON documents and blank-only JSON input are outside the two clauses that name a result: only the exception-type clause is checked for them",
    "noise before a JSON document does not start with '{' or '[' and the document itself is a mapping or sequence",
    "year-less logs: all true times lie strictly less than (365 or 366) - 330 days from the query (the documented 330-day heuristic is exact there; a share of lines sits 1 s .. 3 days inside that edge); 29 Feb is not generated for them",
    "timestamp-shaped substrings occur only where the generator put a stamp (ids and words contain no digits-colon patterns)",
]
REACH = [
    "insights/core/__init__.py::CommandParser.__init__",
    "insights/core/__init__.py::CommandParser.validate_lines",
    "insights/core/__init__.py::JSONParser.parse_content",
    "insights/core/__init__.py::YAMLParser.parse_content",
    "insights/core/__init__.py::TextFileOutput.get",
    "insights/core/__init__.py::TextFileOutput.__contains__",
    "insights/core/__init__.py::TextFileOutput.keep_scan",
    "insights/core/__init__.py::TextFileOutput.last_scan",
    "insights/core/__init__.py::TextFileOutput.token_scan",
    "insights/core/__init__.py::LogFileOutput.get_after",
]
PLAN = {
    "quick": {"shards": 8, "cases": 30000, "timeout_s": 900, "min_evaluations": 200000,
              "min_counters": {"command_outputs": 50000, "json_documents": 50000, "yaml_documents": 50000, "searches_compared": 150000, "get_after_queries": 50000}},
    "thorough": {"shards": 16, "cases": 400000, "timeout_s": 3300, "min_evaluations": 1000000,
                 "min_counters": {"command_outputs": 250000}},
}
SINGLE = ["no such file or directory", "not a directory", "command not found", "no module named", "no files found for"]
MULTI = ["missing dependencies:"]
_UID = itertools.count()
WORDS = ["alpha", "beta", "gamma", "err", "warn", "x", "alpha beta", "", "kernel:", "Alpha"]
FORMATS = {
    "year": "%Y-%m-%d %H:%M:%S",
    "syslog": "%b %d %H:%M:%S",
    "list": ["%Y-%m-%d %H:%M:%S", "%d/%b/%Y:%H:%M:%S"],
    "dict": {"a": "%y%m%d %H:%M:%S", "b": "%Y-%m-%dT%H:%M:%S"},
    "yearless_list": ["%b %d %H:%M:%S", "%m/%d %H:%M:%S"],
}


def rc(rng, s):
    return "".join(ch.upper() if rng.random() < 0.5 else ch for ch in s)


def gen_value(rng, d):
    r = rng.random()
    if d == 0 or r < 0.4:
        return rng.choice([0, 1, -7, 2.5, "", "s", "a b", "x: y", "- z", "#h", "true", "null", "é", True, False, None, "1", "[x]", "{y}", "'q'", '"dq"',
                           "line\nbreak", "tab\t", "~", "yes", "0x1f", "1e3", 10 ** 20, "\\", "a\\nb", "@at", "%p", "&anchor", "*ref", "!tag", "|", ">", "?"])
    if r < 0.7:
        return [gen_value(rng, d - 1) for _ in range(rng.randint(0, 3))]
    return dict((rng.choice(["k", "key 2", "a:b", "#k", "3", "true", "", "null", "- d", "x y z", "é"]) + str(i), gen_value(rng, d - 1)) for i in range(rng.randint(0, 3)))


def gen_case(rng, tier, idx):
    kind = ("cmd", "doc", "search", "time")[idx % 4]
    if kind == "cmd":
        lines = []
        for i in range(rng.randint(0, 6)):
            r = rng.random()
            base = "line %d data" % i
            if r < 0.2:
                base = rng.choice(["pre ", ""]) + rc(rng, rng.choice(SINGLE)) + rng.choice([" post", ""])
            elif r < 0.3:
                base = rng.choice(["x ", ""]) + rc(rng, rng.choice(MULTI)) + rng.choice([" y", ""])
            elif r < 0.4:
                base = rng.choice(["No such file", "command not foun", "missing dependencies", "not  a directory", "nosuch file or directory"])
            elif r < 0.47:
                base = rc(rng, "EXTRA bad") + " thing"
            elif r < 0.5:
                base = ""
            lines.append(base)
        extra = rng.choice([None, None, ["extra bad"], ["extra bad", "line 3"], []])
        case = {"kind": kind, "lines": lines, "extra": extra}
        if rng.random() < 0.25:
            # the command parser over a datasource with several outputs (one per container / per item), evaluated by the
            # engine: error messages among them yield no object, every other output reaches the parser
            elems = []
            for j in range(rng.randint(2, 5)):
                if rng.random() < 0.4:
                    elems.append([rng.choice(["pre ", ""]) + rc(rng, rng.choice(SINGLE)) + rng.choice([" post", ""])])
                else:
                    elems.append(["element %d line %d" % (j, i) for i in range(rng.randint(1, 3))])
            case["elements"] = elems
        return case
    if kind == "doc":
        v = gen_value(rng, 3)
        if not isinstance(v, (dict, list)) and rng.random() < 0.8:
            v = [v]
        return {"kind": kind, "value": v, "indent": rng.choice([None, None, 1, 2, 4]), "ascii": rng.random() < 0.5,
                "noise": rng.sample(["Warning: something", "INFO loading", "", "note: x", "123"], rng.randint(0, 3)),
                "mutation": rng.choice(["valid", "valid", "valid", "trunc", "garbage", "null", "empty", "delbracket", "inject", "blank", "badscalar"]),
                "mut_arg": rng.randint(1, 6), "flow": rng.choice([True, False, None]), "unicode": rng.random() < 0.5,
                "as_list": rng.random() < 0.8}
    if kind == "search":
        n = rng.randint(0, 12)
        lines = ["#%d " % i + " ".join(rng.choice(WORDS) for _ in range(rng.randint(0, 4))) for i in range(n)]
        queries = []
        for _ in range(rng.randint(3, 8)):
            s = rng.choice(WORDS[:7]) if rng.random() < 0.5 else rng.sample(WORDS[:7], rng.randint(1, 3))
            if s == "":
                s = "x"
            queries.append({"s": s, "check": rng.choice(["all", "any"]), "num": rng.choice([None, None, 0, 1, 2, 5]), "reverse": rng.random() < 0.4,
                            "op": rng.choice(["get", "contains", "keep_scan", "last_scan", "token_scan"])})
        return {"kind": kind, "lines": lines, "queries": queries}
    fmt = rng.choice(sorted(FORMATS))
    yearless = fmt in ("syslog", "yearless_list")
    q = datetime.datetime(rng.choice([2021, 2023, 2024]), rng.choice([1, 1, 12, 12, 3, 6, 2]), rng.randint(1, 28), rng.randint(0, 23), rng.randint(0, 59), rng.randint(0, 59))
    if rng.random() < 0.3:
        q = q.replace(month=rng.choice([1, 12]), day=rng.choice([1, 2, 30, 31]))
    t = q + datetime.timedelta(days=rng.randint(-25, 3), seconds=rng.randint(-3600, 3600))
    entries = []
    for i in range(rng.randint(1, 14)):
        if rng.random() < 0.6:
            t = t + datetime.timedelta(seconds=rng.choice([0, 1, 30, 3600, 86400 * rng.randint(0, 5), -60 if not yearless else 0]))
            if rng.random() < 0.2:
                t = q + datetime.timedelta(seconds=rng.choice([0, 0, -1, 1]))
            if yearless and t.month == 2 and t.day == 29:
                t += datetime.timedelta(days=1)
            if abs((t - q).days) > 29 and yearless:
                t = q + datetime.timedelta(days=rng.randint(-29, 29))
            entries.append({"t": t.isoformat(), "fmt_i": rng.randrange(2), "msg": "m#%d %s" % (i, rng.choice(WORDS[:7]))})
        else:
            entries.append({"t": None, "msg": "    cont#%d %s" % (i, rng.choice(WORDS[:7]))})
    if yearless and rng.random() < 0.4:
        # the edge of the documented heuristic: a year-less stamp more than 330 days ahead of (behind) the sought time
        # belongs to the previous (next) year.  With L = 365 or 366 days between a stamp and the same stamp a year
        # on, it is exact for true times strictly less than L - 330 days away from the sought time.
        def leap(y):
            return y % 4 == 0 and (y % 100 != 0 or y % 400 == 0)
        edge = []
        for sign in (-1, 1):
            for delta in rng.sample([1, 2, 59, 3600, 43200, 86399, 86400, 3 * 86400], 3):
                # both year lengths are tried; only the consistent one survives the check below
                for L in (365, 366):
                    t2 = q + sign * (datetime.timedelta(days=L - 330) - datetime.timedelta(seconds=delta))
                    if t2.year != q.year + sign or (t2.month == 2 and t2.day == 29):
                        continue
                    # real distance between the stamp carried into the sought year and the true time
                    moved = t2.replace(year=q.year)
                    if abs((moved - t2).days) != L:
                        continue
                    edge.append({"t": t2.isoformat(), "fmt_i": rng.randrange(2), "msg": "m#e%d%d %s" % (sign + 1, delta, rng.choice(WORDS[:7]))})
                    if rng.random() < 0.5:
                        edge.append({"t": None, "msg": "    cont#e%d %s" % (delta, rng.choice(WORDS[:7]))})
        entries = [e for e in edge if True] + entries if rng.random() < 0.5 else entries + edge
    return {"kind": kind, "format": fmt, "query": q.isoformat(), "entries": entries, "s": rng.choice([None, None, "alpha", ["alpha", "beta"], "x"])}


def nontrivial(spec):
    k = spec["kind"]
    if k == "cmd":
        return len(spec["lines"]) >= 1
    if k == "doc":
        return isinstance(spec["value"], (dict, list)) and len(spec["value"]) > 0
    if k == "search":
        return len(spec["lines"]) >= 2
    return len(spec["entries"]) >= 2


# --------------------------------------------------------------------------
def run_cmd_elements(spec, ctx):
    import sys
    import types
    from insights.core import CommandParser, dr
    from insights.core.plugins import datasource, parser
    from insights.tests import context_wrap
    from vpmon import gen_graph as G
    uid = next(_UID)
    modname = "vpmon_c14.m%d" % uid
    sys.modules[modname] = types.ModuleType(modname)
    created = []
    try:
        def src(broker):
            return [context_wrap(list(e)) for e in spec["elements"]]
        src.__name__ = src.__qualname__ = "src%d" % uid
        src.__module__ = modname
        ds = datasource(multi_output=True)(src)
        created.append(ds)

        class CPM(CommandParser):
            def parse_content(self, content):
                self.got = list(content)
        CPM.__name__ = CPM.__qualname__ = "CPM%d" % uid
        CPM.__module__ = modname
        pc = parser(ds)(CPM)
        created.append(pc)
        br = dr.run(dr.get_dependency_graph(pc))
        got = [list(x.got) for x in (br.get(pc) or [])]
        exp = [list(e) for e in spec["elements"] if not (len(e) == 1 and any(p_ in e[0].lower() for p_ in SINGLE))]
        ctx.count("multi_output_command_parsers")
        ctx.count("command_outputs", len(spec["elements"]))
        if got != exp:
            ctx.violation("good-output-of-a-multi-output-command-did-not-reach-the-parser" if len(got) < len(exp) else "error-output-reached-the-parser",
                          {"elements": spec["elements"], "parsed": got, "expected": exp})
    finally:
        for c_ in created:
            G._unregister(c_)
        sys.modules.pop(modname, None)


def run_cmd(spec, ctx):
    from insights.core import CommandParser
    from insights.core.exceptions import ContentException
    from insights.tests import context_wrap
    if spec.get("elements"):
        run_cmd_elements(spec, ctx)

    class CP(CommandParser):
        def parse_content(self, content):
            self.got = content
    c = context_wrap(list(spec["lines"]))
    content = c.content
    low = [l.lower() for l in content]
    if len(content) == 1:
        expbad = any(p in low[0] for p in SINGLE)
    elif len(content) > 1:
        expbad = any(p in l for p in MULTI for l in low)
    else:
        expbad = False
    extra = spec["extra"]
    if not expbad and extra and content:
        expbad = any(e in l for e in extra for l in low)
    p = None
    try:
        p = CP(c, extra_bad_lines=extra) if extra is not None else CP(c)
        res = "ok"
    except ContentException:
        res = "content-error"
    except Exception as ex:
        res = "other:" + type(ex).__name__
    ctx.count("command_outputs")
    ctx.count("command_outputs_" + ("rejected" if expbad else "accepted"))
    if expbad and res != "content-error":
        ctx.violation("error-output-reached-the-parser", {"lines": content, "extra_bad_lines": extra, "result": res})
    elif not expbad and res != "ok":
        ctx.violation("good-output-rejected", {"lines": content, "extra_bad_lines": extra, "result": res})
    elif res == "ok" and p.got != content:
        ctx.violation("output-changed-before-parsing", {"lines": content, "got": p.got})


def run_doc(spec, ctx):
    import yaml
    from insights.core import JSONParser, YAMLParser
    from insights.core.exceptions import ParseException, SkipComponent
    from insights.tests import context_wrap
    v = spec["value"]
    mut = spec["mutation"]
    text = json.dumps(v, indent=spec["indent"], ensure_ascii=spec["ascii"])
    is_doc = isinstance(v, (dict, list))

    def mutate(text):
        a = spec["mut_arg"]
        if mut == "trunc":
            return text[:max(0, len(text) - a)]
        if mut == "garbage":
            return text + " }{"
        if mut == "null":
            return "null"
        if mut == "empty":
            return ""
        if mut == "blank":
            return "   \n  "
        if mut == "delbracket":
            for ch in "]}[{":
                if ch in text:
                    i = text.rfind(ch)
                    return text[:i] + text[i + 1:]
            return text
        if mut == "inject":
            i = min(len(text), a)
            return text[:i] + " @@ " + text[i:]
        return text
    jt = mutate(text)
    noise = [n for n in spec["noise"] if not n.strip().startswith(("{", "["))]
    lines = noise + jt.split("\n") if jt != "" else list(noise)
    arg = lines if spec["as_list"] else "\n".join(lines)
    jp = None
    try:
        jp = JSONParser(context_wrap(arg))
        res = ("ok", jp.data)
    except SkipComponent:
        res = ("skip",)
    except ParseException:
        res = ("parse-error",)
    except Exception as ex:
        res = ("other", type(ex).__name__)
    ctx.count("json_documents")
    ctx.seen("json_outcomes", res[0] if res[0] != "other" else "other:" + res[1])
    w = {"lines": lines[:8], "mutation": mut, "result": res[0] if res[0] != "ok" else "ok"}
    if res[0] == "other":
        ctx.violation("json-parser-raised-another-exception-type", dict(w, type=res[1]))
    else:
        # reference meaning of the text after the noise
        try:
            ref = ("ok", json.loads(jt)) if jt.strip() else ("none",)
        except Exception:
            ref = ("invalid",)
        first_doc_line = jt.strip()[:1] in ("{", "[")
        if ref[0] == "ok" and isinstance(ref[1], (dict, list)) and first_doc_line:
            # valid mapping / sequence (also after noise): exactly the document's value
            if res[0] != "ok" or res[1] != ref[1] or type(res[1]) is not type(ref[1]):
                ctx.violation("valid-json-document-not-returned", dict(w, got=repr(res)[:200], expected=repr(ref[1])[:200]))
            elif spec["as_list"] and getattr(jp, "unparsed_lines", None) != noise:
                ctx.violation("noise-lines-not-reported", dict(w, unparsed=getattr(jp, "unparsed_lines", None), noise=noise))
            ctx.count("json_valid_documents")
        elif ref[0] == "ok" and ref[1] is None and not noise:
            if res[0] != "skip":
                ctx.violation("null-json-document-not-skipped", w)
        elif ref[0] == "none" and not lines:
            if res[0] != "skip":
                ctx.violation("empty-json-input-not-skipped", w)
        elif ref[0] == "invalid" and jt.strip():
            if res[0] != "parse-error":
                ctx.violation("invalid-json-not-a-parse-error", dict(w, got=repr(res)[:200]))
            ctx.count("json_invalid_documents")
        else:
            ctx.count("json_outside_named_clauses")
    # ---- YAML ---------------------------------------------------------
    if is_doc:
        yt = yaml.safe_dump(v, default_flow_style=spec["flow"], allow_unicode=spec["unicode"], indent=spec["indent"] or 2)
    else:
        yt = yaml.safe_dump(v)
    ymut = mutate(yt) if mut in ("trunc", "garbage", "null", "empty", "blank", "inject", "delbracket") else yt
    if mut == "badscalar":
        # syntactically fine YAML whose scalar cannot be constructed (the constructors raise plain ValueError)
        ymut = ["installed: 2019-02-30", "a: 1\nb: 2001-13-01", "- !!int abc", "t: 2001-12-14t21:59:43.10+99:00", "- 2001-02-29 10:00:00",
                "x: !!float nope"][spec["mut_arg"] % 6]
    yarg = ymut.split("\n") if (spec["as_list"] and ymut != "") else ymut
    if yarg == "":
        yarg = []
    try:
        yp = YAMLParser(context_wrap(yarg))
        yres = ("ok", yp.data)
    except SkipComponent:
        yres = ("skip",)
    except ParseException:
        yres = ("parse-error",)
    except Exception as ex:
        yres = ("other", type(ex).__name__)
    ctx.count("yaml_documents")
    ctx.seen("yaml_outcomes", yres[0] if yres[0] != "other" else "other:" + yres[1])
    wy = {"text": ymut[:300], "mutation": mut, "result": yres[0]}
    if yres[0] == "other":
        ctx.violation("yaml-parser-raised-another-exception-type", dict(wy, type=yres[1]))
        return
    try:
        docs = list(yaml.safe_load_all(ymut))
        yref = ("ok", docs[0]) if len(docs) == 1 else (("none",) if not docs else ("invalid",))
    except Exception:
        yref = ("invalid",)
    if yref[0] == "ok" and isinstance(yref[1], (dict, list)):
        if yres[0] != "ok" or yres[1] != yref[1] or type(yres[1]) is not type(yref[1]):
            ctx.violation("valid-yaml-document-not-returned", dict(wy, got=repr(yres)[:200], expected=repr(yref[1])[:200]))
        if mut == "valid" and is_doc and yres[0] == "ok" and yres[1] != v:
            ctx.violation("yaml-value-differs-from-rendered-value", dict(wy, got=repr(yres[1])[:200], rendered=repr(v)[:200]))
        ctx.count("yaml_valid_documents")
    elif (yref[0] == "ok" and yref[1] is None) or yref[0] == "none":
        if yres[0] != "skip":
            ctx.violation("empty-or-null-yaml-not-skipped", dict(wy, got=repr(yres)[:100]))
    elif yref[0] == "invalid":
        if yres[0] != "parse-error":
            ctx.violation("invalid-yaml-not-a-parse-error", dict(wy, got=repr(yres)[:200]))
        ctx.count("yaml_invalid_documents")
    else:
        # scalar document: "anything else" -> parse error
        if yres[0] != "parse-error":
            ctx.violation("scalar-yaml-document-not-a-parse-error", dict(wy, got=repr(yres)[:200]))


def run_search(spec, ctx):
    from insights.core import TextFileOutput
    from insights.tests import context_wrap
    lines = spec["lines"]
    uid = next(_UID)
    cls = type("T%d" % uid, (TextFileOutput,), {})
    checks = {"all": all, "any": any}
    keys = []
    for qi, q in enumerate(spec["queries"]):
        key = "k%d" % qi
        if q["op"] == "keep_scan":
            cls.keep_scan(key, q["s"], check=checks[q["check"]], num=q["num"], reverse=q["reverse"])
        elif q["op"] == "last_scan":
            cls.last_scan(key, q["s"], check=checks[q["check"]])
        elif q["op"] == "token_scan":
            cls.token_scan(key, q["s"], check=checks[q["check"]])
        keys.append(key)
    p = cls(context_wrap("\n".join(lines) if lines else ""))
    actual = p.lines
    for qi, q in enumerate(spec["queries"]):
        terms = [q["s"]] if isinstance(q["s"], str) else q["s"]
        chk = checks[q["check"]] if not isinstance(q["s"], str) else all
        match = [l for l in actual if chk(t in l for t in terms)]
        num, rev = q["num"], q["reverse"]
        if num is None:
            exp_list = match
        elif rev:
            exp_list = match[max(0, len(match) - num):] if num else []
        else:
            exp_list = match[:num]
        op = q["op"]
        ctx.count("searches_compared")
        ctx.seen("search_operations", op)
        w = {"operation": op, "query": q, "lines": actual[:12]}
        if op == "get":
            got = [d["raw_line"] for d in p.get(q["s"], check=checks[q["check"]], num=num, reverse=rev)]
            if got != exp_list:
                ctx.violation("line-search-returns-wrong-lines", dict(w, got=got, expected=exp_list))
        elif op == "keep_scan":
            got = [d["raw_line"] for d in getattr(p, keys[qi])]
            if got != exp_list:
                ctx.violation("line-search-returns-wrong-lines", dict(w, got=got, expected=exp_list))
        elif op == "last_scan":
            got = getattr(p, keys[qi])
            e = {"raw_line": match[-1], "raw_message": match[-1]} if match else {}
            if got != e:
                ctx.violation("last-scan-returns-wrong-line", dict(w, got=got, expected=e))
        elif op == "token_scan":
            got = getattr(p, keys[qi])
            if got is not bool(match):
                ctx.violation("token-scan-wrong", dict(w, got=got, expected=bool(match)))
        else:
            allmatch = [l for l in actual if all(t in l for t in terms)]
            got = q["s"] in p
            if got is not bool(allmatch):
                ctx.violation("contains-wrong", dict(w, got=got, expected=bool(allmatch)))


def run_time(spec, ctx):
    from insights.core import LogFileOutput
    from insights.tests import context_wrap
    fmt = FORMATS[spec["format"]]
    cls = type("L%d" % next(_UID), (LogFileOutput,), {"time_format": fmt})
    flist = list(fmt.values()) if isinstance(fmt, dict) else (fmt if isinstance(fmt, list) else [fmt])
    q = datetime.datetime.fromisoformat(spec["query"])
    lines, stamps = [], []
    for e in spec["entries"]:
        if e["t"] is None:
            lines.append(e["msg"])
            stamps.append(None)
        else:
            t = datetime.datetime.fromisoformat(e["t"])
            f = flist[e["fmt_i"] % len(flist)]
            lines.append("%s host proc: %s" % (t.strftime(f), e["msg"]))
            stamps.append(t)
    p = cls(context_wrap("\n".join(lines)))
    s = spec["s"]
    try:
        got = [d["raw_message"] for d in p.get_after(q, s)]
    except Exception as ex:
        ctx.violation("get-after-raised", {"exc": repr(ex)[:200], "format": spec["format"], "lines": lines[:6], "query": spec["query"]})
        return
    exp = []
    inc = False
    terms = None if s is None else ([s] if isinstance(s, str) else s)
    for l, ts in zip(p.lines, stamps):
        if terms is not None and not all(x in l for x in terms):
            continue
        if ts is not None:
            inc = ts >= q
            if inc:
                exp.append(l)
        elif inc:
            exp.append(l)
    ctx.count("get_after_queries")
    ctx.count("yearless_stamps_near_the_330_day_edge", sum(1 for e in spec["entries"] if e["t"] and e["msg"].startswith("m#e")))
    ctx.seen("time_formats", spec["format"])
    ctx.count("get_after_lines_expected", len(exp))
    if any(t == q for t in stamps if t):
        ctx.count("queries_exactly_on_a_stamp")
    if got != exp:
        ctx.violation("time-search-returns-wrong-lines", {"format": spec["format"], "query": spec["query"], "s": s, "lines": lines, "got": got, "expected": exp})


def run_case(spec, ctx):
    {"cmd": run_cmd, "doc": run_doc, "search": run_search, "time": run_time}[spec["kind"]](spec, ctx)
    return nontrivial(spec)
