"""The repository's own component graph as a workload.

All spec sets, parsers and combiners of insights-core are loaded (about 2 900
components) and evaluated against a synthetic archive directory
(HostArchiveContext) whose files are filled with the sample content found in
the parsers' own docstrings - optionally truncated, scrambled, replaced by
garbage, emptied or left out (fault injection through content).  The monitors
attached are value-free: they need no knowledge of what a parser should
produce.
"""
import collections
import inspect
import os
import random
import re
import shutil
import tempfile

_LOADED = {}


def load():
    """returns {"points": {name: point}, "files": {point name: [relative paths]}, "samples": {point name: [lines]}}"""
    if _LOADED:
        return _LOADED
    from insights.core import dr
    from insights.core.plugins import is_parser
    dr.load_components("insights.specs.default", "insights.specs.insights_archive", "insights.parsers", "insights.combiners",
                       continue_on_error=True)
    from insights.specs import Specs
    from insights.specs.default import DefaultSpecs
    from insights.specs.insights_archive import InsightsArchiveSpecs
    files = collections.OrderedDict()
    for cls in (DefaultSpecs, InsightsArchiveSpecs):
        for name in sorted(vars(cls)):
            impl = getattr(cls, name, None)
            if impl is None or not hasattr(Specs, name):
                continue
            paths = []
            if isinstance(getattr(impl, "path", None), str) and type(impl).__name__ == "simple_file":
                paths = [impl.path]
            elif type(impl).__name__ == "first_file" and getattr(impl, "paths", None):
                paths = [impl.paths[0]]
            elif type(impl).__name__ == "glob_file" and getattr(impl, "patterns", None):
                paths = [p.replace("*", "x1").replace("?", "y").replace("[", "").replace("]", "") for p in list(impl.patterns)[:1]]
            paths = [p for p in paths if p and "%" not in p and "$" not in p]
            if paths:
                files.setdefault(name, []).extend(p.lstrip("/") for p in paths)
    samples = {}
    for name in files:
        point = getattr(Specs, name)
        lines = None
        for dep in sorted(dr.get_dependents(point), key=dr.get_name):
            if not is_parser(dep):
                continue
            for doc in (inspect.getdoc(dep), inspect.getdoc(inspect.getmodule(dep))):
                lines = sample_block(doc)
                if lines:
                    break
            if lines:
                break
        samples[name] = lines or ["sample line one", "key = value", "sample 3 4 5"]
    _LOADED.update(points=dict((n, getattr(Specs, n)) for n in files), files=files, samples=samples)
    return _LOADED


def sample_block(doc):
    """first literal block ('::' followed by an indented block) of a docstring"""
    if not doc:
        return None
    lines = doc.splitlines()
    for i, l in enumerate(lines):
        if l.rstrip().endswith("::"):
            j = i + 1
            while j < len(lines) and not lines[j].strip():
                j += 1
            if j >= len(lines):
                continue
            indent = len(lines[j]) - len(lines[j].lstrip())
            base = len(l) - len(l.lstrip())
            if indent <= base:
                continue
            block = []
            while j < len(lines) and (not lines[j].strip() or len(lines[j]) - len(lines[j].lstrip()) >= indent):
                block.append(lines[j][indent:] if lines[j].strip() else "")
                j += 1
            while block and not block[-1].strip():
                block.pop()
            if len(block) >= 2 and not block[0].startswith(">>>"):
                return block
    return None


def make_archive(seed, fault_rate=0.3):
    """creates the synthetic archive; returns (root, {spec name: treatment})"""
    info = load()
    rng = random.Random(seed)
    root = tempfile.mkdtemp(prefix="vprg_")
    os.makedirs(os.path.join(root, "insights_commands"), exist_ok=True)
    treat = {}
    for name, paths in info["files"].items():
        lines = list(info["samples"][name])
        r = rng.random()
        if r < fault_rate * 0.25:
            t = "missing"
        elif r < fault_rate * 0.45:
            t, lines = "empty", []
        elif r < fault_rate * 0.7:
            t, lines = "truncated", lines[:max(1, len(lines) // 2)]
            lines[-1] = lines[-1][:max(1, len(lines[-1]) // 2)]
        elif r < fault_rate * 0.85:
            t = "scrambled"
            rng.shuffle(lines)
        elif r < fault_rate:
            t, lines = "garbage", ["\x00\x01 not what you expect {{{", "]] ,,, === ::: 12 ab", "no such file or directory"][:rng.randint(1, 3)]
        else:
            t = "sample"
        treat[name] = t
        if t == "missing":
            continue
        for p in paths:
            fp = os.path.join(root, p)
            try:
                os.makedirs(os.path.dirname(fp), exist_ok=True)
                with open(fp, "w", encoding="utf-8") as f:
                    f.write("\n".join(lines) + ("\n" if lines else ""))
            except (OSError, IOError):
                pass
    return root, treat


def graph():
    from insights.core import dr
    return dict((k, set(v)) for k, v in dr.COMPONENTS[dr.GROUPS.single].items() if dr.get_name(k).startswith("insights."))


def new_broker(root):
    from insights.core import dr
    from insights.core.context import HostArchiveContext
    br = dr.Broker()
    all_files = []
    for d, _, names in os.walk(root):
        all_files.extend(os.path.join(d, n) for n in names)
    br[HostArchiveContext] = HostArchiveContext(root, all_files=all_files)
    return br


def digest(brokers):
    """address-free summary of an evaluation"""
    from insights.core import dr
    inst, exc, miss = {}, {}, set()
    for br in brokers:
        for k, v in br.instances.items():
            n = dr.get_name(k)
            if n.startswith("insights."):
                inst[n] = (type(v).__name__, len(v) if isinstance(v, list) else None)
        for k, lst in br.exceptions.items():
            exc.setdefault(dr.get_name(k), []).extend((type(e).__name__, re.sub(r"0x[0-9a-f]+", "0x", str(e))[:160]) for e in lst)
        for k in br.missing_requirements:
            miss.add(dr.get_name(k))
    for k in exc:
        exc[k] = sorted(set(exc[k]))
    return inst, exc, miss


def engine_monitors(events, broker, g, raised):
    """value-free monitors of C01 / C03 over one recorded evaluation; returns [(mechanism, witness)]"""
    from insights.core import dr
    out = []
    if raised is not None:
        return [("exception-escaped-evaluation", {"exc": repr(raised)[:300]})]
    process = collections.Counter()
    attempted = set()
    attempts = collections.Counter()
    for ev in events:
        kind = ev[2]
        if kind == "process":
            c = ev[3]
            process[c] += 1
            for d in dr.get_dependencies(c):
                if d in g and d in dr.DELEGATES and d not in attempted:
                    out.append(("dependency-not-attempted-first", {"component": dr.get_name(c), "dependency": dr.get_name(d)}))
            if c not in g:
                out.append(("processed-outside-graph", {"component": dr.get_name(c)}))
        elif kind == "attempt":
            attempted.add(ev[3])
            attempts[ev[3]] += 1
    for c, k in process.items():
        if k > 1:
            out.append(("processed-more-than-once", {"component": dr.get_name(c), "times": k}))
    for c, k in attempts.items():
        if k != 1:
            out.append(("attempt-observer-fired-%d-times" % k, {"component": dr.get_name(c)}))
    # accounting: every key of the exception table is a component that was processed, or a registry point
    for key, lst in broker.exceptions.items():
        if not lst:
            continue
        if key not in process and not dr.is_registry_point(key):
            out.append(("exceptions-under-a-component-that-raised-nothing", {"key": dr.get_name(key), "exceptions": [repr(e)[:100] for e in lst[:2]]}))
        for e in lst:
            tb = broker.tracebacks.get(e)
            if not (isinstance(tb, str) and "Traceback" in tb):
                out.append(("exception-without-traceback", {"key": dr.get_name(key), "exc": repr(e)[:200]}))
    for c in broker.instances:
        if c in broker.missing_requirements:
            out.append(("valued-component-also-reported-missing", {"component": dr.get_name(c)}))
    return out


def evaluate(root, mode="serial", pool_size=0):
    """returns (events, brokers, raised)"""
    from insights.core import dr
    from vpmon import gen_graph as G
    g = graph()
    br = new_broker(root)

    def attempt(comp, brk):
        rec = G.active()
        if rec is not None:
            rec.add("attempt", comp, id(brk))
    br.add_observer(attempt, dr.ComponentType)
    raised = None
    brokers = [br]
    with G.recording() as rec:
        try:
            if mode == "serial":
                dr.run(g, broker=br)
            elif mode == "incremental":
                list(dr.run_incremental(g, broker=br))
            else:
                from concurrent.futures import ThreadPoolExecutor
                with ThreadPoolExecutor(max_workers=pool_size) as pool:
                    dr.run_all(g, br, pool)
        except Exception as ex:
            raised = ex
    return rec.events, brokers, raised, g


def cleanup(root):
    shutil.rmtree(root, ignore_errors=True)
