import sys
from vpmon.runner import shard_main
if __name__ == "__main__":
    sys.exit(shard_main(sys.argv[1:]))
