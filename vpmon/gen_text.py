"""Slot-line generator shared by the cleaner properties (C08, C09, C10).

A line is   TAG d slot d slot ... d   where TAG is a unique id over an
alphabet ('~' and digits) no obfuscator or generated keyword can touch, d is a
non-word delimiter that cannot occur in any substitute the cleaner issues, and
every slot holds one planted token of a known kind.  Because tag and
delimiters survive cleaning, an output line can be split back into slots.
"""
import re

# delimiters: non-word, and never part of a substitute ('.', ':', '-', '*', hex, digits)
DELIMS_SAFE = [" ", ",", ";", "[", "]", "\"", "'", "|", "\t", "<", ">", "?", "{", "}"]
# these are in the documented character class of a password secret: not usable on lines with a password slot
DELIMS_PWCLASS = ["(", ")", "=", "/", "!", "@", "#", "%", "+", "&", "^", "$"]
FILLER = ["lorem", "ipsum", "dolor", "sit", "amet", "etc", "var", "log", "up", "ok", "tcp", "udp", "eth0", "LISTEN", "x86_64",
          "3", "42", "1.5", "v2.0.1", "a:b", "k=v", "", "--", "#"]
PW_SEPS = [": ", ":", " : ", "=", " = ", "==", "=\"", " = \"", ": \"", " --md5 ", " ", "   ", ":\"", "\"=\""]
PW_KEYS = ["password", "passwords", "password_1", "passwordFile", "db_password", "rootpassword"]
SECRET_CHARS = "abcXYZ019_!@#$%^&*()+=/-"
KW_AFFIX = ["", "vv", "gj", "_", "Vg"]
IP_SUFFIX = ["", "", "", ":80", ":65535", "/24", "/8", ".", ","]
SAFE_MARK = set("GHIJKLMNOPQRSTUVWXYZgijnquvz_!")   # never part of hostN.example.com / keywordN / hex / digits / ********
FQDNS = ["srvq7.lab.zzcorp.test", "nodeq1.zz-corp.test", "quiz9.jj.nn.uu.test", "jjhostq.test", "qqlocalz", "SrvQ8.lab.zzcorp.test", "APPq3.jj.nn.uu.test"]
KEYWORDS = ["ZEBRA", "QUUX!", "MNOP", "Jinx_Q", "zzqq", "VIP-ZONE", "uniq", "GQ"]
PATTERNS_PLAIN = ["XDROPX", "secret-zone", "DO NOT KEEP", "drop.me", "a+b"]
# regex patterns with a text that is known (by construction) to match
PATTERNS_REGEX = [("XDROP[0-9]+X", "XDROP123X"), ("drop[[:digit:]]{2}me", "drop42me"), ("^~~.*PURGE$", None),
                  ("[[:upper:]]{3}-[[:xdigit:]]+-KILL", "ABC-1f-KILL"), ("zap[[:space:]]+it", "zap \tit"),
                  ("tok[[:punct:]]en", "tok!en"), ("(foo|bar)baz[[:alnum:]]", "barbaz9"), ("[[:alpha:]]+@redact", "abc@redact")]


class Cfg(object):
    def __init__(self, d):
        self.obfuscate = d["obfuscate"]
        self.obfuscate_hostname = d["obfuscate_hostname"]
        self.obfuscate_mac = d["obfuscate_mac"]
        self.obfuscate_ipv6 = False
        if d.get("rhsm_facts_file"):
            self.rhsm_facts_file = d["rhsm_facts_file"]


def gen_config(rng, force_obfuscate=None):
    obf = rng.random() < 0.75 if force_obfuscate is None else force_obfuscate
    cfg = {"fqdn": rng.choice(FQDNS), "obfuscate": obf,
           "obfuscate_hostname": obf and rng.random() < 0.8, "obfuscate_mac": obf and rng.random() < 0.8,
           "keywords": rng.sample(KEYWORDS, rng.randint(0, 4)), "patterns": None}
    r = rng.random()
    if r < 0.35:
        cfg["patterns"] = {"plain": rng.sample(PATTERNS_PLAIN, rng.randint(1, 3))}
    elif r < 0.65:
        cfg["patterns"] = {"regex": [list(x) for x in rng.sample(PATTERNS_REGEX, rng.randint(1, 3))]}
    return cfg


def make_cleaner(cfg):
    from insights.cleaner import Cleaner
    rm = {}
    if cfg["keywords"]:
        rm["keywords"] = list(cfg["keywords"])
    p = cfg.get("patterns")
    if p:
        rm["patterns"] = list(p["plain"]) if "plain" in p else {"regex": [x[0] for x in p["regex"]]}
    return Cleaner(Cfg(cfg), rm, fqdn=cfg["fqdn"])


def domain_of(fqdn):
    return fqdn.split(".", 1)[1] if "." in fqdn else None


def gen_ip(rng, pool=None):
    if pool and rng.random() < 0.8:
        return rng.choice(pool)
    r = rng.random()
    if r < 0.08:
        return "127.0.0.1"
    if r < 0.25:
        return "10.230.230.%d" % rng.randint(1, 12)
    if r < 0.45:
        return "1.2.3.%d" % rng.choice([4, 40, 45, 5, 255, 0])
    if r < 0.55:
        return rng.choice(["255.255.255.0", "192.168.1.1", "8.8.8.8", "100.100.100.100", "9.9.9.99"])
    return ".".join(str(rng.randint(1, 255)) if i == 0 else str(rng.randint(0, 255)) for i in range(4))


def gen_mac(rng, pool=None):
    if pool and rng.random() < 0.8:
        return rng.choice(pool)
    r = rng.random()
    if r < 0.07:
        return "00:00:00:00:00:00"
    if r < 0.14:
        return rng.choice(["ff:ff:ff:ff:ff:ff", "FF:FF:FF:FF:FF:FF"])
    sep = rng.choice(":-")
    s = sep.join("%02x" % rng.randint(0, 255) for _ in range(6))
    c = rng.random()
    if c < 0.35:
        return s.upper()
    if c < 0.45:
        return "".join(ch.upper() if rng.random() < 0.5 else ch for ch in s)
    return s


def gen_otherhost(rng, fqdn):
    d = domain_of(fqdn)
    if not d:
        return None
    return rng.choice(["dbq", "w-1", "x_y", "n9.sub", "mail", "a", "node-77.rack_2", "0x1f", "DBq01", "Mailq"]) + "." + d


def gen_secret(rng, n):
    body = "".join(rng.choice(SECRET_CHARS) for _ in range(rng.randint(0, 6)))
    # starts with an alphanumeric so that it cannot be taken for part of the separator
    return "S3c%dr" % n + body + "T"


def gen_line(rng, cfg, tag, kinds=None, ip_pool=None, mac_pool=None, host_pool=None, nslots=None, plain_tokens=False, host_suffix=False):
    """returns a JSON-able line spec {tag, d, slots: [[kind, value, shown]]}"""
    kinds = kinds or ["ip", "ip", "mac", "fqdn", "short", "otherhost", "kw", "pw", "drop", "fill", "fill"]
    slots = []
    has_pw = 0
    for s in range(nslots or rng.randint(1, 5)):
        k = rng.choice(kinds)
        v = shown = None
        if k == "ip":
            v = gen_ip(rng, ip_pool)
            suffix = "" if plain_tokens else rng.choice(IP_SUFFIX)
            shown = v + suffix
        elif k == "mac":
            v = shown = gen_mac(rng, mac_pool)
        elif k == "fqdn":
            v = shown = cfg["fqdn"]
        elif k == "short":
            v = shown = cfg["fqdn"].split(".")[0]
        elif k == "otherhost":
            v = (rng.choice(host_pool) if host_pool and rng.random() < 0.8 else gen_otherhost(rng, cfg["fqdn"]))
            if v is None:
                k, v = "fill", "nodomain"
            shown = v
        elif k == "kw":
            if not cfg["keywords"]:
                k, v = "fill", "nokw"
            else:
                v = rng.choice(cfg["keywords"])
            shown = v
            if k == "kw" and not plain_tokens and rng.random() < 0.35:
                # a keyword is a plain substring: also inside a longer word (affixes over letters no keyword or substitute uses)
                shown = rng.choice(KW_AFFIX) + v + rng.choice(KW_AFFIX)
        elif k == "pw":
            if has_pw >= 4:
                k, v, shown = "fill", "pw2", "pw2"
            else:
                has_pw += 1
                v = gen_secret(rng, rng.randint(100, 999))
                sep = rng.choice(PW_SEPS)
                shown = rng.choice(PW_KEYS) + sep + v + ("\"" if sep.endswith("\"") and rng.random() < 0.7 else "")
        elif k == "drop":
            p = cfg.get("patterns")
            if not p:
                k, v = "fill", "nodrop"
            elif "plain" in p:
                v = rng.choice(p["plain"])
            else:
                pat, text = rng.choice(p["regex"])
                if text is None:
                    k, v = "fill", "PURGE"          # matches only at the end of a line, handled by the caller
                else:
                    v = text
            shown = v
        else:
            v = shown = rng.choice(FILLER)
        if host_suffix and k in ("fqdn", "otherhost") and rng.random() < 0.4:
            # DNS absolute notation, a name ending a sentence or followed by a port
            shown = v + rng.choice([".", ".", ",", ":", ";", ":8443"])
        slots.append([k, v, shown])
    delims = DELIMS_SAFE if has_pw else DELIMS_SAFE + DELIMS_PWCLASS
    d = rng.choice(delims)
    # a slot text must not contain the delimiter (the skeleton must stay recoverable)
    for tries in range(10):
        if not any(d in s[2] for s in slots):
            break
        d = rng.choice(DELIMS_SAFE)
    else:
        d = " "
        slots = [s for s in slots if " " not in s[2]] or [["fill", "x", "x"]]
    return {"tag": tag, "d": d, "slots": slots}


def render(ls):
    d = ls["d"]
    return ls["tag"] + d + d.join(s[2] for s in ls["slots"]) + ("" if ls.get("no_tail") else d)


TAG_RE = re.compile(r"^~~\d+(?:~\d+)*~~")


def tag_of(line):
    m = TAG_RE.match(line)
    return m.group(0) if m else None


def split_slots(ls, out_line):
    """split an output line on the skeleton of its input line; None if the skeleton is broken"""
    d = ls["d"]
    if not out_line.startswith(ls["tag"] + d) or not out_line.endswith(d):
        return None
    body = out_line[len(ls["tag"]) + len(d):-len(d)] if len(ls["slots"]) else ""
    parts = body.split(d)
    if len(parts) != len(ls["slots"]):
        return None
    return parts
