"""vpmon - runtime monitors for insights-core (see /verif/DESIGN.md)."""
