#!/venv/bin/python
"""Generates selftest/mutants/*.patch from a table of (name, file, old, new[, occurrence]).

Each mutant is one realistic, compiling edit that breaks the property named by
its prefix (the "breaks" lists of DESIGN.md section 4).  Patches are unified
diffs against /repo's current working tree; `tools/mutant.py sweep` applies each
to a scratch copy and expects the corresponding check to report a VIOLATION.
"""
import difflib
import os
import sys

HERE = os.path.dirname(os.path.abspath(__file__))
REPO = "/repo"
DR = "insights/core/dr.py"
PL = "insights/core/plugins.py"
SF = "insights/core/spec_factory.py"
CORE = "insights/core/__init__.py"
PARS = "insights/parsers/__init__.py"
CFG = "insights/client/config.py"
UT = "insights/client/utilities.py"
PV = "insights/client/apps/ansible/playbook_verifier/__init__.py"
SER = "insights/client/apps/ansible/playbook_verifier/serializer.py"
PARSR = "insights/parsr/__init__.py"
Q = "insights/parsr/query/__init__.py"
QB = "insights/parsr/query/boolean.py"
CL = "insights/cleaner/__init__.py"

M = [
    # ---- C01 -----------------------------------------------------------------
    ("c01_toposort_emits_level_early", "insights/contrib/toposort.py", "if len(dep) == 0)", "if len(dep) <= 1)"),
    ("c01_seeded_value_recomputed", DR, "if (component not in broker and component in components and", "if (component in components and"),
    ("c01_optional_edges_not_in_graph", DR, "        self.deps.extend(self.optional)\n\n        self.dependencies = set(self.deps)",
     "        self.dependencies = set(self.deps)\n        self.deps.extend(self.optional)"),
    ("c01_observers_fire_twice_on_failure", DR, "            tb = traceback.format_exc()\n            broker.add_exception(component, ex, tb)\n            for reg_spec",
     "            tb = traceback.format_exc()\n            broker.add_exception(component, ex, tb)\n            broker.fire_observers(component)\n            for reg_spec"),
    ("c01_components_outside_graph_run", DR, "if (component not in broker and component in components and\n               component in DELEGATES and",
     "if (component not in broker and\n               component in DELEGATES and"),
    # ---- C02 -----------------------------------------------------------------
    ("c02_f20_reverted", DR, "        # prune a copy: the graph may be the caller's or a registered group\n        components = dict(components)\n", ""),
    ("c02_group_needs_all_members", DR, "if not any(x in broker for x in d)]", "if not all(x in broker for x in d)]"),
    ("c02_optional_bound_before_required", DR, "        self.deps.extend(self.optional)\n\n        self.dependencies", "        self.deps = list(self.optional) + self.deps\n\n        self.dependencies"),
    ("c02_rule_skip_drops_groups", PL, "return _make_skip(dr.get_name(self.component), missing)", "return _make_skip(dr.get_name(self.component), (missing[0], []))"),
    ("c02_disabled_components_run", DR, "               component in DELEGATES and\n               is_enabled(component)):", "               component in DELEGATES):"),
    ("c02_arguments_compacted", DR, "        args = [results.get(d) for d in self.deps]", "        args = [results.get(d) for d in self.deps if d in results]"),
    ("c02_missing_required_order_reversed", DR, "missing_required = [r for r in self.requires if r not in broker]", "missing_required = [r for r in reversed(self.requires) if r not in broker]"),
    # ---- C03 -----------------------------------------------------------------
    ("c03_store_skips_inverted", DR, "        except SkipComponent as sc:\n            if broker.store_skips:\n                log.debug(sc)", "        except SkipComponent as sc:\n            if not broker.store_skips:\n                log.debug(sc)"),
    ("c03_traceback_not_stored", DR, "            tb = traceback.format_exc()\n            broker.add_exception(component, ex, tb)\n            for", "            tb = traceback.format_exc()\n            broker.add_exception(component, ex)\n            for"),
    ("c03_attributed_to_dependents", DR, "            for reg_spec in get_registry_points(component):\n                broker.add_exception(reg_spec, ex, tb)",
     "            for reg_spec in get_dependents(component):\n                broker.add_exception(reg_spec, ex, tb)"),
    ("c03_observer_exception_escapes", DR, "                    try:\n                        o(component, self)\n                    except Exception as e:\n                        log.exception(e)", "                    o(component, self)"),
    ("c03_continue_on_error_inverted", PL, "            except ContentException as ce:\n                log.debug(ce)\n                broker.add_exception(self.component, ce, traceback.format_exc())\n                if not self.continue_on_error:",
     "            except ContentException as ce:\n                log.debug(ce)\n                broker.add_exception(self.component, ce, traceback.format_exc())\n                if self.continue_on_error:"),
    ("c03_f1_reverted", PL, "broker.add_exception(self.component, sc, traceback.format_exc())", "broker.add_exception(component, sc, traceback.format_exc())"),
    ("c03_parser_element_error_lost", PL, "            except Exception as ex:\n                tb = traceback.format_exc()\n                log.warning(tb)\n                broker.add_exception(self.component, ex, tb)", "            except Exception as ex:\n                tb = traceback.format_exc()\n                log.warning(tb)"),
    # ---- C04 -----------------------------------------------------------------
    ("c04_subgraphs_ignore_dependents", DR, "            frontier |= set([d for d in get_dependents(component) if d in graph])\n", ""),
    ("c04_seen_not_cleared", DR, "                pass\n        seen.clear()", "                pass"),
    ("c04_run_all_drops_last_future", DR, "        return [f.result() for f in futures]", "        return [f.result() for f in futures[:-1]]"),
    ("c04_incremental_uses_broker_copies", DR, "        yield graph, broker or Broker()", "        yield graph, Broker(broker) if broker else Broker()"),
    ("c04_f8_reverted", PL, "use_alarm = HostContext in broker and isinstance(threading.current_thread(), threading._MainThread)", "use_alarm = HostContext in broker"),
    ("c04_f18_reverted", DR, "missing_at_least_one = [d for d in self.at_least_one if not any(x in broker for x in d)]", "missing_at_least_one = [d for d in self.at_least_one if not set(d).intersection(broker)]"),
    ("c04_subgraph_keys_lost", DR, "        yield dict((s, get_dependencies(s)) for s in seen)", "        yield dict((s, get_dependencies(s)) for s in seen if get_dependencies(s) or get_dependents(s))"),
    # ---- C05 -----------------------------------------------------------------
    ("c02_point_prefers_first_implementation", SF, "for c in reversed(dr.get_delegate(self).deps):", "for c in dr.get_delegate(self).deps:"),
    ("c05_ignore_applied_to_new_handler", SF, "            dr.add_ignore(old, c)", "            dr.add_ignore(component, c)"),
    ("c05_handlers_not_remembered", SF, "        ctx_handlers[name][c].append(component)", "        pass"),
    ("c05_flags_not_copied", SF, "                v.filterable = delegate.filterable = point.filterable\n", ""),
    ("c05_only_last_context_handled", SF, "    for c in _get_ctx_dependencies(component):\n        for old in ctx_handlers[name][c]:", "    for c in sorted(_get_ctx_dependencies(component), key=lambda x: x.__name__)[-1:]:\n        for old in ctx_handlers[name][c]:"),
    # ---- C06 -----------------------------------------------------------------
    ("c06_realpath_to_abspath", SF, "        resolved = os.path.realpath(self.path)\n", "        resolved = os.path.abspath(self.path)\n"),
    ("c06_f3_reverted", SF, "if resolved != real_root and not resolved.startswith(os.path.join(real_root, \"\")):", "if not resolved.startswith(real_root):"),
    ("c06_deny_command_exact_only", "insights/core/blacklist.py", "def allow_command(c):\n    cl = len(c)\n    return not any(c.startswith(f) and (cl == len(f) or c[len(f)] == ' ') for f in _COMMAND_FILTERS)",
     "def allow_command(c):\n    return c not in _COMMAND_FILTERS"),
    ("c06_deny_file_without_slash", SF, "if not blacklist.allow_file(\"/\" + self.relative_path):", "if not blacklist.allow_file(self.relative_path):"),
    ("c06_save_as_kept_absolute", SF, "        self.save_as = save_as.lstrip(\"/\") if save_as else None\n        self.context = context or FSRoots\n        self.kind = kind\n        self.raw = kind is RawFileProvider\n        self.__name__ = self.__class__.__name__\n        datasource(self.context, *deps, raw=self.raw, **kwargs)(self)\n\n    def __call__(self, broker):\n        ctx = _get_context",
     "        self.save_as = save_as if save_as else None\n        self.context = context or FSRoots\n        self.kind = kind\n        self.raw = kind is RawFileProvider\n        self.__name__ = self.__class__.__name__\n        datasource(self.context, *deps, raw=self.raw, **kwargs)(self)\n\n    def __call__(self, broker):\n        ctx = _get_context"),
    ("c06_deny_checks_command_word_only", SF, "            if not blacklist.allow_command(self.cmd):", "            if not blacklist.allow_command(shlex.split(self.cmd)[0]):"),
    ("c06_container_commands_not_checked", SF, "            # 2.2 Customer Prohibits Collection\n            if not blacklist.allow_command(self.cmd):", "            # 2.2 Customer Prohibits Collection\n            if not isinstance(self, ContainerProvider) and not blacklist.allow_command(self.cmd):"),
    # ---- C07 -----------------------------------------------------------------
    ("c07_f4_reverted", "insights/core/filters.py", "        _CACHE.clear()\n", "        _CACHE.pop(comp, None)\n"),
    ("c07_propagation_one_level", "insights/core/filters.py", "        for d in dr.get_dependents(c):\n            filters.update(inner(d, filters))", "        for d in dr.get_dependents(c):\n            if plugins.is_datasource(d) and d in FILTERS:\n                filters.update(FILTERS[d])"),
    ("c07_post_filter_top_down", "insights/cleaner/filters.py", "        for idx in range(len(lines) - 1, -1, -1):", "        for idx in range(len(lines)):"),
    ("c07_grep_fixed_strings_dropped", SF, "[\"grep\", \"-F\", \"-e\", \"\\n\".join(sorted(self._filters.keys(), reverse=True)), self.path]", "[\"grep\", \"-e\", \"\\n\".join(sorted(self._filters.keys(), reverse=True)), self.path]"),
    ("c07_f4b_reverted_for_commands", SF, "command.append([\"grep\", \"-F\", \"-e\", ", "command.append([\"grep\", \"-F\", "),
    ("c07_unfiltered_filterable_collected", SF, "            if self._filterable and not self._filters:\n                raise NoFilterException(\"Skipping %s due to no filters.\" % dr.get_name(self.ds))\n            # 2.2 Customer Prohibits Collection\n            if not blacklist.allow_file",
     "            # 2.2 Customer Prohibits Collection\n            if not blacklist.allow_file"),
    ("c07_allow_filter_budget_per_line_not_key", "insights/cleaner/filters.py", "                if a_key in line:\n                    allowlist[a_key] -= 1", "                if a_key in line:\n                    for _k in list(allowlist):\n                        allowlist[_k] -= 1 if _k != a_key and allowlist[_k] > 1 else 0\n                    allowlist[a_key] -= 1"),
    ("c07_parser_filters_need_all_deps_filterable", "insights/core/filters.py", "            if not filterable_deps:\n                raise Exception", "            if len(filterable_deps) != len(deps):\n                raise Exception"),
    # ---- C08 -----------------------------------------------------------------
    ("c08_ip_sorted_by_length_dropped", "insights/cleaner/ip.py", "for ip in sorted(ips or [], key=len, reverse=True):", "for ip in ips or []:"),
    ("c08_password_md5_separator_removed", "insights/cleaner/password.py", "|\\s*--md5+\\s*|", "|"),
    ("c08_pattern_needs_all", "insights/cleaner/pattern.py", "if any(find(pat, line) for pat in self._exclude):", "if all(find(pat, line) for pat in self._exclude):"),
    ("c08_keyword_replaced_as_whole_word_only", "insights/cleaner/keyword.py", "                line = line.replace(k, v)\n",
     "                line = __import__(\"re\").sub(r\"(?<![A-Za-z0-9])%s(?![A-Za-z0-9])\" % __import__(\"re\").escape(k), v, line)\n"),
    ("c08_keyword_lowercased_lookup", "insights/cleaner/keyword.py", "            if k in line:\n", "            if k.lower() in line:\n"),
    ("c08_mac_dash_form_missed", "insights/cleaner/mac.py", "([0-9a-fA-F]{2}([:-])(?:[0-9a-fA-F]{2}\\2){4}[0-9a-fA-F]{2})", "([0-9a-fA-F]{2}([:])(?:[0-9a-fA-F]{2}\\2){4}[0-9a-fA-F]{2})"),
    ("c08_ip_last_octet_single_digit_missed", "insights/cleaner/ip.py", "\\b[1-9][0-9]|\\b[0-9])){3})\"", "\\b[1-9][0-9]|\\b[1-9])){3})\""),
    ("c08_no_redact_skips_keywords_too", CL, "        for obf in sorted(set(self.obfuscate.keys()) - set(no_obfuscate or [])):", "        for obf in sorted(set(self.obfuscate.keys()) - set(no_obfuscate or []) - (set(['keyword']) if no_redact else set())):"),
    ("c08_hostname_other_hosts_with_underscore_missed", "insights/cleaner/hostname.py", "[a-zA-Z0-9\\-\\_\\.]*\\.%s' % d)", "[a-zA-Z0-9\\-\\.]*\\.%s' % d)"),
    ("c08_password_colon_quote_form_missed", "insights/cleaner/password.py", "(\\s*\\:\\s*\\\"*\\s*|", "(\\s*\\:\\s*|"),
    # ---- C09 -----------------------------------------------------------------
    ("c09_hostname_counter_not_advanced", "insights/cleaner/hostname.py", "            # we have a new hostname, so we increment the counter to get the host ID number\n            self._hostname_count += 1\n", ""),
    ("c09_ip_mapping_columns_swapped", "insights/cleaner/ip.py", "mapping.append({'original': self._int2ip(v), 'obfuscated': self._int2ip(k)})", "mapping.append({'original': self._int2ip(k), 'obfuscated': self._int2ip(v)})"),
    ("c09_keyword_not_recorded_as_replaced", "insights/cleaner/keyword.py", "                self._obfuscated.add(k)\n", ""),
    ("c09_facts_without_hostnames", CL, "        hn_mapping = hostname.mapping() if hostname else []", "        hn_mapping = []"),
    ("c09_ip_lookup_misses_existing", "insights/cleaner/ip.py", "            if v == ip_num:\n                ret_ip = self._int2ip(k)\n                ip_found = True", "            if v == ip_num and k % 4:\n                ret_ip = self._int2ip(k)\n                ip_found = True"),
    # ---- C10 -----------------------------------------------------------------
    ("c10_f5_reverted", CL, "for obf in sorted(set(self.obfuscate.keys()) - set(no_obfuscate or [])):", "for obf in set(self.obfuscate.keys()) - set(no_obfuscate or []):"),
    ("c10_result_not_reversed", CL, "            # When some lines Truthy, return them in right order\n            result.reverse()\n", "            # When some lines Truthy, return them in right order\n"),
    ("c10_empty_spec_written", SF, "                if len(content) == 0:\n                    log.debug(\"Skipping %s due to empty after cleaning\", self.path)\n                    raise ContentException(\"Empty after cleaning: %s\" % self.path)\n", ""),
    ("c10_f13_reverted", CL, "                    if content and any(l.strip() for l in content):", "                    if content:"),
    ("c10_blank_only_result_returned", CL, "        if result and any(l for l in result):", "        if result:"),
    # ---- C11 -----------------------------------------------------------------
    ("c11_loaded_lines_stripped", SF, "                content = [l.rstrip(\"\\n\") for l in f]\n            if not isinstance(self.ctx, HostContext) and self._filters:", "                content = [l.strip() for l in f]\n            if not isinstance(self.ctx, HostContext) and self._filters:"),
    ("c11_bad_entry_aborts_loading", "insights/core/serde.py", "            except Exception as ex:\n                log.warning(ex)\n        return broker", "            except Exception as ex:\n                log.warning(ex)\n                raise\n        return broker"),
    ("c11_save_as_location_not_recorded", SF, "    dst = os.path.join(root, rel)\n    rc = obj.write(dst)\n    return {\n        \"save_as\": bool(obj.save_as),\n        \"relative_path\": rel,\n        \"rc\": rc,\n    }\n\n\n@deserializer(TextFileProvider)",
     "    dst = os.path.join(root, rel)\n    rc = obj.write(dst)\n    return {\n        \"save_as\": bool(obj.save_as),\n        \"relative_path\": obj.relative_path,\n        \"rc\": rc,\n    }\n\n\n@deserializer(TextFileProvider)"),
    ("c11_element_order_reversed", "insights/core/serde.py", "        results = [i[0] for i in data if i[0]]", "        results = [i[0] for i in reversed(data) if i[0]]"),
    ("c11_command_args_dropped", SF, "        \"cmd\": obj.cmd,\n        \"args\": obj.args,\n        \"save_as\": bool(obj.save_as),\n        \"relative_path\": rel,\n    }\n\n\n@deserializer(CommandOutputProvider)", "        \"cmd\": obj.cmd,\n        \"args\": None,\n        \"save_as\": bool(obj.save_as),\n        \"relative_path\": rel,\n    }\n\n\n@deserializer(CommandOutputProvider)"),
    ("c11_failed_component_not_persisted", "insights/core/serde.py", "if doc is not None and (doc[\"results\"] or doc[\"errors\"]):", "if doc is not None and doc[\"results\"]:"),
    ("c11_loaded_specs_collected_again", DR, "    if broker.get(SerializedArchiveContext) is not None:", "    if False and broker.get(SerializedArchiveContext) is not None:"),
    # two cooperating sites: persisting warms the name look-up, the look-up itself only finds components that something
    # depends on - invisible while the collecting process loads its own archive, visible to a fresh interpreter
    ("c11_name_lookup_works_only_in_the_collecting_process", [
        ("insights/core/serde.py", "            name = dr.get_name(comp)\n\n            # The `broker.tracebacks`",
         "            name = dr.get_name(comp)\n            dr.COMPONENTS_BY_NAME[name] = comp\n\n            # The `broker.tracebacks`"),
        (DR, "    for d in DELEGATES:\n        if get_name(d) == name:\n            return d",
         "    for deps in COMPONENTS[GROUPS.single].values():\n        for d in deps:\n            if get_name(d) == name:\n                return d"),
    ]),
    ("c11_value_error_aborts_loading", "insights/core/serde.py", "            except ValueError as ve:\n                log.debug(ve)\n", "            except ValueError as ve:\n                raise\n"),
    # ---- C12 -----------------------------------------------------------------
    ("c12_non_string_key_accepted", PL, "        elif not isinstance(key, str):\n            msg = \"Response contains invalid %s type\" % self.key_name\n            raise ValidationException(msg, type(key))\n", ""),
    ("c12_limit_inclusive", PL, "if length > settings.defaults[\"max_detail_length\"]:", "if length >= settings.defaults[\"max_detail_length\"]:"),
    ("c12_none_shown_by_default", "insights/formats/__init__.py", "        response.pop('none') if 'none' in response else None\n", ""),
    ("c12_second_result_of_a_type_dropped", "insights/core/evaluators.py", "        if plugins.is_rule(comp) and comp in broker:\n            self.handle_result(comp, broker[comp])", "        if plugins.is_rule(comp) and comp in broker and not (broker[comp].get(\"type\") == \"info\" and self.results[\"info\"]):\n            self.handle_result(comp, broker[comp])"),
    ("c12_none_return_is_an_error", PL, "        if r is None:\n            return make_none()\n", ""),
    ("c12_reserved_type_argument_accepted", PL, "if (self.key_name and self.key_name in kwargs) or \"type\" in kwargs:", "if (self.key_name and self.key_name in kwargs):"),
    ("c12_stub_keeps_payload", PL, "            r[\"max_detail_length_error\"] = length\n            return r", "            kwargs[\"max_detail_length_error\"] = length\n            return kwargs"),
    ("c12_json_skips_when_not_missing_kept", "insights/formats/__init__.py", "    if not missing and 'skips' in response:", "    if not missing and show_rules and 'skips' in response:"),
    # ---- C13 -----------------------------------------------------------------
    ("c13_numeric_segments_compared_as_text", "insights/parsers/rpm_vercmp.py", "            if lenl > lenr:\n                return 1\n\n            if lenr > lenl:\n                return -1\n", ""),
    ("c13_tilde_sorts_after", "insights/parsers/rpm_vercmp.py", "            if a[0] != \"~\":\n                return 1", "            if a[0] != \"~\":\n                return -1"),
    ("c13_epoch_compared_as_text", "insights/parsers/rpm_vercmp.py", "    le, re = int(left.epoch), int(right.epoch)", "    le, re = left.epoch, right.epoch"),
    ("c13_ge_without_equality", "insights/parsers/installed_rpms.py", "        return isinstance(other, InstalledRpm) and not self.__lt__(other)", "        return isinstance(other, InstalledRpm) and other.__lt__(self)"),
    ("c13_caret_at_end_sorts_higher", "insights/parsers/rpm_vercmp.py", "            if not a[0]:\n                return -1\n            if not b[0]:\n                return 1", "            if not a[0]:\n                return 1\n            if not b[0]:\n                return -1"),
    ("c13_leading_zeros_kept", "insights/parsers/rpm_vercmp.py", "                while x and x[0] == '0':\n                    x.popleft()", "                while len(x) > 1 and x[0] == '0' and x[1] == '0':\n                    x.popleft()"),
    ("c13_unicode_alnum", "insights/parsers/rpm_vercmp.py", "    a = deque([c if ord(c) < 128 else \".\" for c in a])", "    a = deque([c for c in a])"),
    # ---- C14 -----------------------------------------------------------------
    ("c14_multi_line_list_for_single_line", CORE, "bad_lines = bad_lines if len(results) > 1 else bad_single_lines", "bad_lines = bad_lines if len(results) >= 1 else bad_single_lines"),
    ("c14_case_sensitive_error_phrases", CORE, "if any(bl in rl.lower() for bl in bad_lines for rl in results):", "if any(bl in rl for bl in bad_lines for rl in results):"),
    ("c14_json_array_after_noise_missed", CORE, "                    if line and line.startswith('{') or line.startswith('['):", "                    if line and line.startswith('{'):"),
    ("c14_get_after_excludes_equal_stamp", CORE, "                if logstamp >= timestamp:", "                if logstamp > timestamp:"),
    ("c14_continuation_state_not_reset", CORE, "                else:\n                    # Earlier - start excluding\n                    including_lines = False", "                else:\n                    # Earlier - start excluding\n                    pass"),
    ("c14_reverse_search_order_kept_reversed", CORE, "        return ret[::-1] if reverse else ret", "        return ret"),
    ("c14_json_null_is_parse_error", CORE, "        if self.data is None:\n            raise SkipComponent(\"Empty input\")", "        if self.data is None:\n            raise ParseException(\"Empty input\")"),
    ("c14_yaml_scalar_accepted", CORE, "            if not isinstance(self.data, (dict, list)):\n                raise ParseException(\"YAML didn't produce a dictionary or list.\")\n", ""),
    ("c14_search_any_for_lists", CORE, "    def _valid_search(self, s, check=all):", "    def _valid_search(self, s, check=any):"),
    # ---- C15 -----------------------------------------------------------------
    ("c15_f6_reverted", PARS, "            idx.append(line.index(h, start))\n            start = idx[-1] + len(h)", "            idx.append(line.index(h, start))\n            start = idx[-1] + 1"),
    ("c15_value_cut_at_second_separator", PARS, "                k, v = line.split(split_on, 1)", "                k, v = line.split(split_on)[:2]"),
    ("c15_first_duplicate_wins", PARS, "                k, v = line.split(split_on, 1)\n                kv_pairs[k.strip()] = v.strip()", "                k, v = line.split(split_on, 1)\n                kv_pairs.setdefault(k.strip(), v.strip())"),
    ("c15_ini_option_names_case_sensitive", CORE, "                section_dict[opt.name.lower()] = options[-1]", "                section_dict[opt.name] = options[-1]"),
    ("c15_comment_cut_at_last_marker", PARS, "line.split(comment_char, 1)[0].strip() for line in lines", "line.rsplit(comment_char, 1)[0].strip() for line in lines"),
    ("c15_keyword_search_any_condition", PARS, "        if all(key_match(row, *term) for term in search_terms):", "        if any(key_match(row, *term) for term in search_terms):"),
    ("c15_delimited_max_splits_ignored", PARS, "            rowsplit = row.split(delim, max_splits)", "            rowsplit = row.split(delim)"),
    ("c15_ini_first_duplicate_wins", CORE, "                section_dict[opt.name.lower()] = options[-1]", "                section_dict[opt.name.lower()] = options[0]"),
    ("c15_f14_reverted", "insights/parsr/iniparser.py", "                if d.name.lower() not in own:", "                if d.name not in c:"),
    ("c15_lower_value_compares_raw", PARS, "'lower_value': lambda s, v: None not in (s, v) and s.lower() == v.lower(),", "'lower_value': lambda s, v: None not in (s, v) and s.lower() == v,"),
    # ---- C16 -----------------------------------------------------------------
    ("c16_file_overrides_environment", CFG, "        self._load_config_file()\n        self._load_env()\n        self._load_command_line()", "        self._load_env()\n        self._load_config_file()\n        self._load_command_line()"),
    ("c16_offline_checkin_allowed", CFG, "            if self.checkin:\n                raise ValueError('Cannot check-in in offline mode.')\n", ""),
    ("c16_output_keeps_archive", CFG, "            self.keep_archive = False\n", ""),
    ("c16_unknown_options_kept", CFG, "        for u in unknown_opts:\n            dict_.pop(u, None)\n", ""),
    ("c16_offline_still_registers", CFG, "        self.register = self.register and not self.offline\n", ""),
    ("c16_obfuscate_hostname_silently_repaired", CFG, "            raise ValueError('Option `obfuscate_hostname` requires `obfuscate`')", "            self.obfuscate = True"),
    ("c16_env_overrides_command_line", CFG, "        if self._cli_opts:\n            self._update_dict(self._cli_opts)\n            return", "        if self._cli_opts:\n            self._update_dict(dict((k, v) for k, v in self._cli_opts.items() if k.upper() not in [e[9:].upper() for e in os.environ if e.upper().startswith('INSIGHTS_')]))\n            return"),
    # ---- C17 -----------------------------------------------------------------
    ("c17_register_keeps_unregistered_marker", UT, "def write_registered_file():\n    delete_unregistered_file()\n", "def write_registered_file():\n"),
    ("c17_marker_symlink_followed", UT, "def write_registered_file():\n    delete_unregistered_file()\n    for f in constants.registered_files:\n        if os.path.lexists(f):\n            if os.path.islink(f):\n                # kill symlinks and regenerate\n                os.remove(f)\n                write_to_disk(f)",
     "def write_registered_file():\n    delete_unregistered_file()\n    for f in constants.registered_files:\n        if os.path.lexists(f):\n            if os.path.islink(f):\n                write_to_disk(f)"),
    ("c17_identifier_not_canonicalised", UT, "        return str(uuid.UUID(str(machine_id).strip(), version=4))", "        uuid.UUID(str(machine_id).strip(), version=4)\n        return str(machine_id).strip()"),
    ("c17_read_rewrites_identifier_file", UT, "        logger.debug(\"Using existing machine-id: '%s'.\" % machine_id)\n", "        logger.debug(\"Using existing machine-id: '%s'.\" % machine_id)\n        write_to_disk(destination_file, content=machine_id)\n"),
    ("c17_unregister_second_directory_skipped", UT, "    for f in constants.unregistered_files:\n        if os.path.lexists(f):", "    for f in constants.unregistered_files[:1]:\n        if os.path.lexists(f):"),
    ("c17_dangling_symlink_followed", UT, "        if os.path.lexists(f):\n            if os.path.islink(f):\n                # kill symlinks and regenerate\n                os.remove(f)\n                write_to_disk(f, content=str(date))", "        if os.path.exists(f):\n            if os.path.islink(f):\n                # kill symlinks and regenerate\n                os.remove(f)\n                write_to_disk(f, content=str(date))"),
    # ---- C18 -----------------------------------------------------------------
    ("c18_f7_reverted", SER, "\"({key}, {value})\".format(key=cls._obj(k), value=cls._obj(v))", "\"('{key}', {value})\".format(key=k, value=cls._obj(v))"),
    ("c18_backslash_not_escaped", SER, "            \"\\\\\": \"\\\\\\\\\",\n", ""),
    ("c18_deeper_exclusion_accepted", PV, "        if len(elements) == 2 and elements[0] in PLAYBOOK_DYNAMIC_LABELS:", "        if len(elements) >= 2 and elements[0] in PLAYBOOK_DYNAMIC_LABELS:"),
    ("c18_revocation_compares_hex_text", PV, "        if play_hash == bytearray.fromhex(revoked_item['hash']):", "        if play_hash.hex() == revoked_item['hash']:"),
    ("c18_bool_serialised_as_int", SER, "        if isinstance(value, int) or isinstance(value, float):\n            return str(value)", "        if isinstance(value, int) or isinstance(value, float):\n            return str(value + 0)"),
    ("c18_missing_signature_accepted", PV, "    if play.get(\"vars\", {}).get(PLAYBOOK_SIGNATURE_LABEL, None) is None:\n        raise PlaybookVerificationError(\"Play doesn't contain the Insights signature.\")\n", ""),
    ("c18_any_top_level_key_excludable", PV, "        if len(elements) == 1 and elements[0] in PLAYBOOK_DYNAMIC_LABELS:", "        if len(elements) == 1:"),
    ("c18_list_brackets_dropped_for_single_item", SER, "        result = \"[\"\n        result += \", \".join(cls._obj(v) for v in value)\n        result += \"]\"", "        if len(value) == 1:\n            return cls._obj(value[0])\n        result = \"[\"\n        result += \", \".join(cls._obj(v) for v in value)\n        result += \"]\""),
    ("c18_both_quotes_not_escaped", SER, "                value = value.replace(\"'\", \"\\\\'\")", "                pass"),
    # ---- C19 -----------------------------------------------------------------
    ("c19_choice_prefers_last_alternative", PARSR, "        for c in self.children:\n            try:\n                return c.process(pos, data, ctx)\n            except:\n                pass\n        raise Exception()",
     "        for c in reversed(self.children):\n            try:\n                return c.process(pos, data, ctx)\n            except:\n                pass\n        raise Exception()"),
    ("c19_not_followed_by_returns_follower_position", PARSR, "        try:\n            right.process(new, data, ctx)\n        except Exception:\n            return new, res", "        try:\n            right.process(new, data, ctx)\n        except Exception:\n            return new + 1 if data[new] is not None else new, res"),
    ("c19_taglang_and_binds_looser", "insights/core/taglang.py", "term = (factor + Many(Char(\"&\") + factor)).map(oper)\nexpr <= (term + Many(InSet(\",|\") + term)).map(oper)", "term = (factor + Many(InSet(\",|\") + factor)).map(oper)\nexpr <= (term + Many(Char(\"&\") + term)).map(oper)"),
    ("c19_f12_reverted", PARSR, "        return [first] + rest", "        return ([first] if first else []) + rest"),
    ("c19_f19_reverted", PARSR, "        return Lift(self._accumulate) * Opt(Sequence([self, Many(sep >> self)]))", "        return Lift(lambda first, rest: ([] if first is Parser else [first]) + rest) * Opt(self, Parser) * Many(sep >> self)"),
    ("c19_literal_ignore_case_is_case_sensitive", PARSR, "                if data[pos].lower() == c:", "                if data[pos] == c:"),
    ("c19_keep_left_does_not_consume_right", PARSR, "        pos, res = left.process(pos, data, ctx)\n        pos, _ = right.process(pos, data, ctx)\n        return pos, res", "        pos, res = left.process(pos, data, ctx)\n        right.process(pos, data, ctx)\n        return pos, res"),
    ("c19_many_lower_bound_off_by_one", PARSR, "        if len(results) < self.lower:\n            child = self.children[0]", "        if len(results) < self.lower - 1:\n            child = self.children[0]"),
    ("c19_until_consumes_terminator", PARSR, "            try:\n                pred.process(pos, data, ctx)\n            except Exception:", "            try:\n                pos, _ = pred.process(pos, data, ctx)\n            except Exception:"),
    ("c19_followed_by_consumes_predicate", PARSR, "        new, res = left.process(pos, data, ctx)\n        right.process(new, data, ctx)\n        return new, res", "        new, res = left.process(pos, data, ctx)\n        new, _ = right.process(new, data, ctx)\n        return new, res"),
    ("c19_opt_default_for_falsy_result", PARSR, "        try:\n            return self.children[0].process(pos, data, ctx)\n        except Exception:\n            return pos, self.default", "        try:\n            p, r = self.children[0].process(pos, data, ctx)\n            return p, (r or self.default)\n        except Exception:\n            return pos, self.default"),
    ("c19_taglang_negation_ignored_in_groups", "insights/core/taglang.py", "def negate(args):\n    op, p = args\n    return Not(p) if op else p", "def negate(args):\n    op, p = args\n    return Not(p) if op and not isinstance(p, (And, Or)) else p"),
    # ---- C20 -----------------------------------------------------------------
    ("c20_any_attribute_becomes_all", Q, "class _AnyAttrQuery(_EntryQuery):\n    def __init__(self, expr):\n        self.expr = expr\n\n    def test(self, e):\n        return any(self.expr(a) for a in e.attrs)", "class _AnyAttrQuery(_EntryQuery):\n    def __init__(self, expr):\n        self.expr = expr\n\n    def test(self, e):\n        return bool(e.attrs) and all(self.expr(a) for a in e.attrs)"),
    ("c20_roots_not_deduplicated", Q, "        if root not in seen:\n            seen.add(root)\n            top.append(root)", "        if root not in seen:\n            top.append(root)"),
    ("c20_flatten_post_order", Q, "    def inner(n):\n        yield n\n        for i in chain.from_iterable(inner(c) for c in n.children):\n            yield i", "    def inner(n):\n        for i in chain.from_iterable(inner(c) for c in n.children):\n            yield i\n        yield n"),
    ("c20_tuple_attributes_need_all", Q, "        return _AnyAttrQuery(lambda v: any(p(v) for p in attr_queries))", "        return _AnyAttrQuery(lambda v: all(p(v) for p in attr_queries))"),
    ("c20_f11_reverted", QB, "return func + \"((value.lower() if isinstance(value, str) else value), \" + \"*\" + args + \")\"", "return func + \"(value.lower(), \" + \"*\" + args + \")\""),
    ("c20_compiled_double_negation_collapsed", QB, "                return \"(\" + \"not \" + expr(b.query) + \")\"", "                return expr(b.query) if isinstance(b.query, Not) else \"(\" + \"not \" + expr(b.query) + \")\""),
    ("c20_raising_callable_matches", Q, "        def predicate(e):\n            try:\n                return q(e._name)\n            except:\n                return False", "        def predicate(e):\n            try:\n                return q(e._name)\n            except:\n                return True"),
    ("c20_deep_search_skips_top_level", Q, "    results = query(_flatten(nodes)) if deep else query(nodes)", "    results = query(_flatten(chain.from_iterable(n.children for n in nodes))) if deep else query(nodes)"),
    ("c20_none_name_matches_nothing", Q, "    if q is None:\n        return lambda _: True\n    if isinstance(q, Boolean):\n        f = q.to_pyfunc()", "    if q is None:\n        return lambda e: e._name is not None\n    if isinstance(q, Boolean):\n        f = q.to_pyfunc()"),
    ("c20_result_getitem_uses_children", Q, "        query = _desugar(query)\n        return Result(children=[c for c in self.grandchildren if query(c)])", "        query = _desugar(query)\n        return Result(children=[c for c in self.children if query(c)])"),
]


def main():
    outdir = os.path.join(HERE, "mutants")
    os.makedirs(outdir, exist_ok=True)
    for f in os.listdir(outdir):
        if f.endswith(".patch"):
            os.remove(os.path.join(outdir, f))
    bad = 0
    for m in M:
        name = m[0]
        # one edit (name, file, old, new) or several cooperating sites (name, [(file, old, new), ...])
        edits = m[1] if isinstance(m[1], list) else [(m[1], m[2], m[3])]
        diffs = []
        for rel, old, new in edits:
            with open(os.path.join(REPO, rel)) as f:
                src = f.read()
            n = src.count(old)
            if n != 1:
                print("!! %s: pattern occurs %d times in %s" % (name, n, rel))
                diffs = None
                break
            dst = src.replace(old, new)
            diffs.extend(difflib.unified_diff(src.splitlines(True), dst.splitlines(True), "a/" + rel, "b/" + rel))
        if diffs is None:
            bad += 1
            continue
        with open(os.path.join(outdir, name + ".patch"), "w") as f:
            f.writelines(diffs)
    print("%d mutants written, %d skipped" % (len(M) - bad, bad))
    return 1 if bad else 0


if __name__ == "__main__":
    sys.exit(main())
