#!/bin/sh
# Offline setup: optional runtime-contract library beside the repository's interpreter, then a self check.
here="$(cd "$(dirname "$0")" && pwd)"
cd "$here" || exit 1
if [ ! -d .deps/icontract ]; then
  /venv/bin/pip install --no-index --find-links /opt/veriftools/wheels --target "$here/.deps" icontract >/dev/null 2>&1 || echo "setup: icontract not installed (checks fall back to plain wrappers)"
fi
mkdir -p evidence
PYTHONPATH="$here:/repo" /venv/bin/python -c "import vpmon.runner, insights; print('setup ok: insights from', insights.__file__)"
