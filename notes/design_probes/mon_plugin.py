# pytest plugin: generic engine monitors (C01/C03) attached to every dr.run_components the suite performs
import collections, functools, atexit, json
from insights.core import dr
from insights.core.exceptions import MissingRequirements
STATS=collections.Counter(); VIOL=[]
_orig_rc = dr.run_components
_orig_process = dr.ComponentType.process
ACTIVE=[]
def process_wrapper(self, broker):
    if ACTIVE:
        st=ACTIVE[-1]
        if st["broker"] is broker:
            c=self.component
            st["process"][c]+=1
            if st["process"][c]>1: VIOL.append(("process-twice", dr.get_name(c)))
            for d in self.get_dependencies():
                if d in st["components"] and d not in st["attempted"] and d in dr.DELEGATES:
                    VIOL.append(("dep-not-attempted", dr.get_name(c), dr.get_name(d)))
            if c in st["seeded"]: VIOL.append(("seeded-processed", dr.get_name(c)))
    return _orig_process(self, broker)
def patched_rc(ordered, components, broker):
    st=dict(broker=broker, components=components, attempted=set(), process=collections.Counter(), seeded=dict((k,id(v)) for k,v in broker.instances.items()))
    def obs(c, b):
        if b is broker: st["attempted"].add(c)
    broker.add_observer(obs)
    ACTIVE.append(st); STATS["runs"]+=1
    exc_before=set(broker.exceptions)
    try:
        return _orig_rc(ordered, components, broker)
    except Exception as e:
        VIOL.append(("run-raised", repr(e))); raise
    finally:
        ACTIVE.pop()
        try: broker.observers[dr.ComponentType].discard(obs)
        except Exception: pass
        STATS["components"]+=len(st["attempted"]); STATS["processed"]+=sum(st["process"].values())
        for k,i in st["seeded"].items():
            if k in broker.instances and id(broker.instances[k])!=i: VIOL.append(("seed-overwritten", dr.get_name(k)))
        for k in set(broker.exceptions)-exc_before:
            if k not in st["process"] and not dr.is_registry_point(k):
                VIOL.append(("exception-foreign-key", dr.get_name(k)))
dr.run_components = patched_rc
dr.ComponentType.process = process_wrapper
# rule.process overrides process
from insights.core import plugins
_orig_rule_process = plugins.rule.process
def rule_process(self, broker):
    if ACTIVE and ACTIVE[-1]["broker"] is broker:
        st=ACTIVE[-1]; c=self.component; st["process"][c]+=1
        for d in self.get_dependencies():
            if d in st["components"] and d not in st["attempted"] and d in dr.DELEGATES:
                VIOL.append(("dep-not-attempted", dr.get_name(c), dr.get_name(d)))
    return _orig_rule_process(self, broker)
plugins.rule.process = rule_process
def pytest_sessionfinish(session, exitstatus):
    print("\nMONITOR", dict(STATS), "violations", len(VIOL), VIOL[:10])
