from insights.cleaner import Cleaner
class Cfg: 
    obfuscate=True; obfuscate_hostname=True; obfuscate_ipv6=False; obfuscate_mac=True
c = Cleaner(Cfg(), {}, fqdn="node1.example.org")
print(c.clean_content(["a 8.8.8.8 b"]))
print(c.clean_content(["x 192.168.10.1 y"]))
print(c.clean_content(["x 10.230.230.2 y"]))   # original equal to an issued substitute
print(c.clean_content(["both 192.168.10.1 10.230.230.2 end"]))
print(c.obfuscate['ip'].mapping())
# MAC with ':' neighbours, '-' form, upper
print(c.clean_content(["ether:aa:bb:cc:dd:ee:ff", "x AA-BB-CC-DD-EE-FF y", "(aa:bb:cc:dd:ee:ff)", "aa:bb:cc:dd:ee:ff,", "00:00:00:00:00:00 ff:ff:ff:ff:ff:ff FF:FF:FF:FF:FF:FF"]))
# ip boundaries
print(c.clean_content(["ip=1.2.3.4:80", "1.2.3.4.", "v1.2.3.4", "1.2.3.456", "01.2.3.4", "1.2.3.4/24", "_1.2.3.4_", "127.0.0.1 127.0.0.2", "a1.2.3.4", "1.2.3.4a", "1.2.3.04", "0.1.2.3"]))
# hostname
print(c.clean_content(["node1", "NODE1.EXAMPLE.ORG", "xnode1x", "db.example.org:5432", "sub.db.example.org", "example.org", ".example.org", "node1.example.org.", "a_b.example.org", "-x.example.org"]))
print(c.obfuscate['hostname'].mapping())
