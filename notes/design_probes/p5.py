from insights.parsers import parse_fixed_table, parse_delimited_table
lines = ["AB    B     C",
         "x1    y1    z1",
         "x2          z2"]
print(parse_fixed_table(lines))
lines = ["NAME  ME   E",
         "a     b    c"]
print(parse_fixed_table(lines))

from insights.client.apps.ansible.playbook_verifier import serialize_play, hash_play, exclude_dynamic_elements
from insights.client.apps.ansible.playbook_verifier.serializer import PlaybookSerializer as S
p1 = {"a": "b", "c": "d"}
p2 = {"a', 'b'), ('c": "d"}
print(S.serialize(p1)); print(S.serialize(p2)); print(S.serialize(p1)==S.serialize(p2))
print(S.serialize({1: "x"}), S.serialize({"1": "x"}))
print(S.serialize({"k": None}), S.serialize({"k": "None"}), S.serialize({"k": True}), S.serialize({"k": 1}), S.serialize({"k": 1.0}))

from insights.parsr.query import ieq, eq, icontains, startswith, Entry
for pr in [ieq("abc"), ~ieq("abc"), ~icontains("a"), ~startswith("a"), ~eq("abc")]:
    for v in ["abc", "ABC", 80, None]:
        i = bool(pr.test(v)); c = bool(pr.to_pyfunc()(v))
        if i != c: print("DISAGREE", v, "interp", i, "compiled", c)
