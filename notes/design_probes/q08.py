import random, sys, re, collections
from insights.cleaner import Cleaner
rng = random.Random(int(sys.argv[1]) if len(sys.argv)>1 else 0)
class Cfg:
    obfuscate=True; obfuscate_hostname=True; obfuscate_ipv6=False; obfuscate_mac=True
DELIMS = [" ", ",", ";", "(", ")", "[", "]", "\"", "'", "=", "/", "|", "\t", "<", ">", "!", "@", "#", "%", "*", "+", "?", "{", "}"]
def ip():
    r=rng.random()
    if r<0.1: return "127.0.0.1"
    if r<0.3: return "10.230.230.%d"%rng.randint(1,6)
    if r<0.5: return "1.2.3.%d"%rng.choice([4,40,45,5])
    return ".".join(str(rng.randint(1,255)) if i==0 else str(rng.randint(0,255)) for i in range(4))
def mac():
    r=rng.random()
    if r<0.1: return "00:00:00:00:00:00"
    if r<0.2: return "ff:ff:ff:ff:ff:ff"
    sep=rng.choice(":-"); s=sep.join("%02x"%rng.randint(0,255) for _ in range(6))
    return s.upper() if rng.random()<0.4 else s
FQDN="srvq7.lab.zzcorp.test"; SHORT="srvq7"; DOMAIN="lab.zzcorp.test"
def host():
    r=rng.random()
    if r<0.3: return FQDN
    if r<0.5: return SHORT
    return rng.choice(["dbq","w-1","x_y","n9.sub"])+"."+DOMAIN
KWS=["ZEBRA","QUUX!","MNOP"]
bad=collections.Counter(); n=0
for it in range(int(sys.argv[2]) if len(sys.argv)>2 else 300):
    c=Cleaner(Cfg(), {"keywords":KWS, "patterns":["XDROPX"]}, fqdn=FQDN)
    for call in range(rng.randint(1,4)):
        lines=[]; meta=[]
        for li in range(rng.randint(1,8)):
            slots=[]
            for s in range(rng.randint(1,4)):
                k=rng.choice(["ip","mac","host","kw","pw","fill","drop"])
                if k=="ip": v=ip()
                elif k=="mac": v=mac()
                elif k=="host": v=host()
                elif k=="kw": v=rng.choice(KWS)
                elif k=="pw": v="password"+rng.choice([": ","=", " = ", ":", "=\"", " "])+"S3cr%dT"%rng.randint(100,999)
                elif k=="drop": v="XDROPX"
                else: v="fill%d"%rng.randint(0,9)
                # optional suffix for ip
                if k=="ip" and rng.random()<0.3: v2=v+rng.choice([":80","/24","."]) 
                else: v2=v
                slots.append((k,v,v2))
            d=rng.choice(DELIMS)
            tag="~~%d~%d~%d~~"%(it,call,li)
            lines.append(tag+d+d.join(s[2] for s in slots)+d)
            meta.append((tag,d,slots))
        out=c.clean_content(list(lines))
        n+=len(lines)
        outby={}
        for o in out:
            m=re.match(r"~~\d+~\d+~\d+~~",o)
            if not m: bad["untagged"]+=1; continue
            outby[m.group(0)]=o
        subs_ip=set(x["obfuscated"] for x in c.obfuscate["ip"].mapping())
        subs_hn=set(x["obfuscated"] for x in c.obfuscate["hostname"].mapping())
        subs_mac=set(x["obfuscated"] for x in c.obfuscate["mac"].mapping())
        for (tag,d,slots),line in zip(meta,lines):
            o=outby.get(tag)
            if any(s[0]=="drop" for s in slots):
                if o is not None: bad["pattern-kept"]+=1
                continue
            if o is None: bad["lost"]+=1; continue
            for kw in KWS:
                if kw in o: bad["kw"]+=1
            stripped=o
            for s in sorted(subs_hn,key=len,reverse=True): stripped=stripped.replace(s,"")
            for h in [FQDN,SHORT]:
                if h in stripped: bad["host:"+h]+=1
            if DOMAIN in stripped and re.search(r"[A-Za-z0-9_-]\."+re.escape(DOMAIN), stripped): bad["otherhost"]+=1; print("OH", repr(line), repr(o))
            for k,v,v2 in slots:
                if k=="pw":
                    sec=re.search(r"S3cr\d+T",v).group(0)
                    if sec in o: bad["pw"]+=1; print("PW",repr(line),repr(o))
                if k=="ip" and v!="127.0.0.1":
                    if re.search(r"(?<![\w.])"+re.escape(v)+r"(?![\w]|\.\d)", o) and v not in subs_ip:
                        bad["ip"]+=1; print("IP", v, repr(line), repr(o))
                if k=="mac" and v.lower() not in ("00:00:00:00:00:00","ff:ff:ff:ff:ff:ff") and d not in ":-":
                    if v in o and v not in subs_mac: bad["mac"]+=1; print("MAC",v,repr(line),repr(o))
print(n, dict(bad))
