# C03 probes
from insights.core import dr
from insights.core.plugins import datasource, parser, component, combiner, rule, make_pass
from insights.core.exceptions import SkipComponent, ContentException, CalledProcessError, TimeoutException
from insights.core import Parser
from insights.core.spec_factory import RegistryPoint, SpecSet

@datasource()
def multi(broker):
    return ["a", "skip", "b"]

class P(object):
    def __init__(self, v):
        if v == "skip":
            raise SkipComponent("elem skip")
        self.v = v
P = parser(multi)(P)

b = dr.Broker(); b.store_skips = True
dr.run(dr.get_dependency_graph(P), broker=b)
print("instances", b.instances.get(P))
print("exceptions keys:", [dr.get_name(k) for k in b.exceptions])

# datasource with no registry point raising CalledProcessError
@datasource()
def bad_ds(broker):
    raise CalledProcessError(1, "cmd", "out")
@datasource()
def bad_ds2(broker):
    raise TimeoutException("t/o")
@combiner(optional=[bad_ds, bad_ds2])
def user(a, b):
    return (a, b)
b = dr.Broker()
dr.run(dr.get_dependency_graph(user), broker=b)
print("user", b.get(user), "exc keys", [dr.get_name(k) for k in b.exceptions], "missing", b.missing_requirements)
