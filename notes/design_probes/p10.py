# quick C02 sanity on odd shapes + C12 stub + C14 JSON scalars
from insights.core import dr
from insights.core.plugins import combiner, rule, make_pass, make_fail, make_info, make_metadata, make_metadata_key, make_fingerprint, component, condition
from insights import settings
class needs(dr.ComponentType): pass
@needs()
def a(): return "a"
@needs()
def b(): return "b"
@needs()
def c(): raise Exception("c fails")
got = {}
@needs([a, c], [c, b], optional=[c, a])
def x(*args): got['x'] = args; return "x"
@needs(optional=[b], requires=[a])   # optional kw before requires kw
def y(*args): got['y'] = args; return "y"
@needs(c, [a, b], [c])
def z(*args): got['z'] = args; return "z"
@rule(c, [a, b], [c])
def r(*args): return make_pass("K")
g = {}
for t in (x, y, z, r): g.update(dr.get_dependency_graph(t))
br = dr.run(g)
print(got, br.missing_requirements.get(z), br.get(r))
lim = settings.defaults["max_detail_length"]
for n in (lim-200, lim-60, lim-50, lim-40, lim):
    resp = make_fail("KEY", data="x"*n)
    print(n, len(str(dict(resp))), sorted(resp.keys()))
from insights.core import JSONParser, YAMLParser
from insights.tests import context_wrap
from insights.core.exceptions import ParseException, SkipComponent
for doc in ["42", '"s"', "true", "null", "", "  ", "{}", "[]", "noise\n{\"a\": 1}", "[x] noise\n{\"a\":1}", "{\"a\": 1}\ntrailing"]:
    try:
        p = JSONParser(context_wrap(doc)); print(repr(doc), "->", repr(p.data))
    except Exception as e:
        print(repr(doc), "EXC", type(e).__name__)
