import random, sys, itertools
from insights.parsers.rpm_vercmp import _rpm_vercmp as real
def isal(c): return ('a'<=c<='z') or ('A'<=c<='Z')
def isdg(c): return '0'<=c<='9'
def ref(a, b):
    if a == b: return 0
    one = [c if ord(c)<128 else '\x01' for c in a]  # non-ascii -> separator byte(s)
    two = [c if ord(c)<128 else '\x01' for c in b]
    i=j=0; n=len(one); m=len(two)
    def at(s,k): return s[k] if k < len(s) else ''
    while i<n or j<m:
        while i<n and not (isal(one[i]) or isdg(one[i])) and one[i] not in '~^': i+=1
        while j<m and not (isal(two[j]) or isdg(two[j])) and two[j] not in '~^': j+=1
        if at(one,i)=='~' or at(two,j)=='~':
            if at(one,i)!='~': return 1
            if at(two,j)!='~': return -1
            i+=1; j+=1; continue
        if at(one,i)=='^' or at(two,j)=='^':
            if i>=n: return -1
            if j>=m: return 1
            if one[i]!='^': return 1
            if two[j]!='^': return -1
            i+=1; j+=1; continue
        if not (i<n and j<m): break
        si=i; sj=j
        if isdg(one[si]):
            while si<n and isdg(one[si]): si+=1
            while sj<m and isdg(two[sj]): sj+=1
            isnum=True
        else:
            while si<n and isal(one[si]): si+=1
            while sj<m and isal(two[sj]): sj+=1
            isnum=False
        if i==si: return -1
        if j==sj: return 1 if isnum else -1
        s1="".join(one[i:si]); s2="".join(two[j:sj])
        if isnum:
            s1=s1.lstrip('0'); s2=s2.lstrip('0')
            if len(s1)>len(s2): return 1
            if len(s2)>len(s1): return -1
        if s1!=s2: return -1 if s1<s2 else 1
        i=si; j=sj
    if i>=n and j>=m: return 0
    return -1 if i>=n else 1
rng = random.Random(int(sys.argv[1]) if len(sys.argv)>1 else 0)
alpha = "0019aAbz.-_+~^é中"
def gs():
    return "".join(rng.choice(alpha) for _ in range(rng.randint(0,7)))
bad=0
for k in range(300000):
    a=gs(); b=gs() if rng.random()<0.5 else a[:rng.randint(0,len(a))]+gs()[:3]
    r=real(a,b); e=ref(a,b)
    if r!=e:
        bad+=1
        if bad<10: print(repr(a),repr(b),r,e)
print("bad",bad)
