import random, sys, datetime
from insights.core import LogFileOutput
from insights.tests import context_wrap
rng = random.Random(int(sys.argv[1]) if len(sys.argv)>1 else 0)
class L1(LogFileOutput): pass
class L2(LogFileOutput): time_format = '%b %d %H:%M:%S'
class L3(LogFileOutput): time_format = ['%Y-%m-%d %H:%M:%S', '%d/%b/%Y:%H:%M:%S']
class L4(LogFileOutput): time_format = {'a': '%y%m%d %H:%M:%S', 'b': '%Y-%m-%dT%H:%M:%S'}
bad=0; n=0
for it in range(int(sys.argv[2]) if len(sys.argv)>2 else 2000):
    cls = rng.choice([L1,L2,L3,L4])
    q = datetime.datetime(rng.choice([2023,2024]), rng.choice([1,1,12,12,3,6]), rng.randint(1,28), rng.randint(0,23), rng.randint(0,59), rng.randint(0,59))
    if rng.random()<0.3: q = q.replace(month=rng.choice([1,12]), day=rng.choice([1,2,30,31]))
    lines=[]; stamps=[]
    t = q + datetime.timedelta(days=rng.randint(-25,5), seconds=rng.randint(-3600,3600))
    for i in range(rng.randint(1,12)):
        if rng.random()<0.6:
            t = t + datetime.timedelta(seconds=rng.choice([0,1,30,3600,86400*rng.randint(0,6)]))
            if rng.random()<0.15: t = q  # exact boundary
            if cls is L2 and t.month==2 and t.day==29: t += datetime.timedelta(days=1)
            fmts = cls.time_format
            if isinstance(fmts, dict): fmts=list(fmts.values())
            if isinstance(fmts, list): fmt=rng.choice(fmts)
            else: fmt=fmts
            lines.append("%s host proc[%d]: msg %d %s" % (t.strftime(fmt), i, i, rng.choice(["alpha","beta","alpha beta"])))
            stamps.append(t)
        else:
            lines.append("    continuation %d %s" % (i, rng.choice(["alpha","beta",""])))
            stamps.append(None)
    s = rng.choice([None, "alpha", ["alpha","beta"]])
    p = cls(context_wrap("\n".join(lines)))
    plines = p.lines
    try:
        got = [d['raw_message'] for d in p.get_after(q, s)]
    except Exception as e:
        print("EXC", type(e).__name__, e, lines[:2]); bad+=1; continue
    # model
    exp=[]; inc=False
    for l,ts in zip(plines, stamps):
        if s is not None:
            terms = [s] if isinstance(s,str) else s
            if not all(x in l for x in terms): continue
        if ts is not None:
            inc = ts >= q
            if inc: exp.append(l)
        elif inc: exp.append(l)
    n+=1
    if got!=exp:
        bad+=1
        if bad<6: print("DIFF", cls.__name__, q, s, "\n ", "\n  ".join(lines), "\n got", got, "\n exp", exp)
print(n,bad)
