import os, tempfile, shutil
from insights.client import utilities as u
from insights.client.constants import InsightsConstants as constants
base = tempfile.mkdtemp(prefix="c17_")
absent = os.path.join(base, "nodir", "machine-id")
a = u.generate_machine_id(destination_file=absent); b = u.generate_machine_id(destination_file=absent)
print("absent dir: ", a, b, a == b)
d = os.path.join(base, "conf"); os.makedirs(d)
f = os.path.join(d, "machine-id")
a = u.generate_machine_id(destination_file=f); b = u.generate_machine_id(destination_file=f)
print("normal:", a == b, open(f).read())
open(f, "w").write("dc194312de5f44a1a7d0c2d1b3f4e5a6\n")
st = os.stat(f)
a = u.generate_machine_id(destination_file=f)
print("legacy:", a, open(f).read().strip(), os.stat(f).st_mtime_ns == st.st_mtime_ns)
open(f, "w").write("DC194312-DE5F-14A1-07D0-C2D1B3F4E5A6")
print("upper/v1:", u.generate_machine_id(destination_file=f))
# markers
constants.registered_files = [os.path.join(d, ".registered"), os.path.join(base, "legacy", ".registered")]
constants.unregistered_files = [os.path.join(d, ".unregistered"), os.path.join(base, "legacy", ".unregistered")]
os.makedirs(os.path.join(base, "legacy"))
target = os.path.join(base, "victim"); open(target, "w").write("victim")
os.symlink(target, constants.registered_files[0])
os.symlink(target, constants.unregistered_files[1])
u.write_registered_file()
print(sorted(os.listdir(d)), sorted(os.listdir(os.path.join(base, "legacy"))), open(target).read(), os.path.islink(constants.registered_files[0]))
os.remove(constants.unregistered_files[0]) if os.path.lexists(constants.unregistered_files[0]) else None
os.symlink(target, constants.unregistered_files[0])
u.write_unregistered_file()
print(sorted(os.listdir(d)), sorted(os.listdir(os.path.join(base, "legacy"))), open(target).read(), os.path.islink(constants.unregistered_files[0]))
shutil.rmtree(base)
