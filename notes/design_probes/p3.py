import os, tempfile, shutil
from insights.core import dr, filters
from insights.core.context import HostContext, HostArchiveContext
from insights.core.plugins import parser
from insights.core.spec_factory import simple_file, RegistryPoint, SpecSet, TextFileProvider, simple_command
from insights.core import Parser

class MySpecs(SpecSet):
    foo = RegistryPoint(filterable=True)
    bar = RegistryPoint(filterable=True)

base = tempfile.mkdtemp(prefix="c07_")
open(os.path.join(base, "foo"), "w").write("alpha one\n-dash line\nbeta two\n--foo bar\nplain\n")

class Impl(MySpecs):
    foo = simple_file("/foo", context=HostContext)
    bar = simple_file("/foo", context=HostContext)

print("before:", filters.get_filters(Impl.foo), filters.get_filters(MySpecs.foo))
filters.add_filter(MySpecs.foo, "alpha")
print("after add on registry point: impl ->", filters.get_filters(Impl.foo), " point ->", filters.get_filters(MySpecs.foo))

# leading dash filter
filters.add_filter(MySpecs.bar, ["--foo"])
ctx = HostContext(root=base)
b = dr.Broker(); b[HostContext] = ctx
dr.run(dr.get_dependency_graph(MySpecs.bar), broker=b)
p = b.get(MySpecs.bar)
print("bar filters", p._filters)
try:
    print("content:", p.content, "rc", p.rc)
except Exception as e:
    print("EXC", type(e).__name__, e)
filters.add_filter(MySpecs.bar, ["-dash"])
filters._CACHE.clear()
b = dr.Broker(); b[HostContext] = ctx
dr.run(dr.get_dependency_graph(MySpecs.bar), broker=b)
p = b.get(MySpecs.bar)
print("bar filters", p._filters)
try:
    print("content:", p.content, "rc", p.rc)
except Exception as e:
    print("EXC", type(e).__name__, e)
shutil.rmtree(base)
