import os, tempfile, shutil
from insights.core import dr
from insights.core.context import HostContext, HostArchiveContext
from insights.core.spec_factory import simple_file, glob_file, first_file, TextFileProvider, RawFileProvider
from insights.core.serde import Hydration
base = tempfile.mkdtemp(prefix="c06_")
root = os.path.join(base, "root"); sib = os.path.join(base, "root_evil"); out = os.path.join(base, "out")
os.makedirs(os.path.join(root, "etc")); os.makedirs(sib); os.makedirs(out)
open(os.path.join(sib, "secret"), "w").write("TOPSECRET\n")
open(os.path.join(base, "outside"), "w").write("OUTSIDE\n")
os.symlink(os.path.join(sib, "secret"), os.path.join(root, "etc", "link_sib"))
os.symlink(os.path.join(base, "outside"), os.path.join(root, "etc", "link_out"))
open(os.path.join(root, "etc", "ok"), "w").write("fine\n")
for ctxcls in (HostArchiveContext, HostContext):
    ctx = ctxcls(root=root)
    for rel in ["etc/link_sib", "etc/link_out", "etc/ok", "../root_evil/secret", "etc/../../outside"]:
        try:
            p = TextFileProvider(rel, root=root, ctx=ctx)
            print(ctxcls.__name__, rel, "->", p.content)
        except Exception as e:
            print(ctxcls.__name__, rel, "EXC", type(e).__name__, str(e)[:60])

# serializer dst with '..' in relative path
ds = simple_file("/etc/../etc/../../escaped_target_dir/ok2", context=HostContext)
os.makedirs(os.path.join(base, "escaped_target_dir"))
open(os.path.join(base, "escaped_target_dir", "ok2"), "w").write("hello\n")
# root must contain it: use root=base/root ; path resolves to base/escaped... outside root -> rejected. Use root=base instead
ctx = HostContext(root=base)
b = dr.Broker(); b[HostContext] = ctx
ds2 = simple_file("/root/etc/../../../%s/in_parent" % os.path.basename(base), context=HostContext)
open(os.path.join(base, "in_parent"), "w").write("hello\n")
dr.run(dr.get_dependency_graph(ds2), broker=b)
print("ds2 value", b.get(ds2), dict(b.exceptions))
h = Hydration(out, ctx)
h.dehydrate(ds2, b)
for dp, dn, fn in os.walk(base):
    for f in fn:
        print(os.path.join(dp, f))
print("tmp listing for stray:", [f for f in os.listdir(os.path.dirname(base)) if f.startswith(os.path.basename(base))])
shutil.rmtree(base)
