import random, sys, io, json, types, collections
from insights.core import dr
from insights.core.plugins import (rule, component, make_pass, make_fail, make_info, make_fingerprint, make_metadata, make_metadata_key, make_none, make_response, Response)
from insights.core.exceptions import SkipComponent
from insights.core.evaluators import SingleEvaluator, InsightsEvaluator
from insights.formats._json import JsonFormat
rng = random.Random(int(sys.argv[1]) if len(sys.argv)>1 else 0)
bad=collections.Counter(); total=0
MK = {"fail":make_fail,"pass":make_pass,"info":make_info,"fingerprint":make_fingerprint}
TYPEKEY = {"fail":"rule","pass":"pass","info":"info","fingerprint":"fingerprint","none":"none"}
for it in range(int(sys.argv[2]) if len(sys.argv)>2 else 300):
    @component()
    def present(): return 1
    @component()
    def absent(): raise SkipComponent()
    rules=[]
    mods=[types.ModuleType("synth_mod_%d_%d"%(it,k)) for k in range(3)]
    import sys as _s
    for m in mods: _s.modules[m.__name__]=m
    for i in range(rng.randint(1,12)):
        outcome=rng.choice(["fail","pass","info","fingerprint","metadata","metadata_key","none","nonresp","raise","skip","missing","disabled","badkey","reserved"])
        key="KEY%d"%rng.randint(0,3)
        tags=rng.sample(["t1","t2","t3"],rng.randint(0,2)); links={"kcs":["http://x/%d"%i]} if rng.random()<0.5 else None
        def mk(outcome=outcome,key=key,i=i):
            def body(*a):
                if outcome in MK: return MK[outcome](key, n=i)
                if outcome=="metadata": return make_metadata(**{"m%d"%i:i})
                if outcome=="metadata_key": return make_metadata_key("mk%d"%i, i)
                if outcome=="none": return None
                if outcome=="nonresp": return {"type":"rule","error_key":key}
                if outcome=="raise": raise ValueError("x")
                if outcome=="skip": raise SkipComponent()
                if outcome=="badkey": return make_fail(rng.choice([None,"",5,b"k"]))
                if outcome=="reserved": return make_fail(key, type="x") if rng.random()<0.5 else make_pass(key, pass_key="y")
                return make_pass(key)
            body.__name__="r%d_%d"%(it,i); body.__qualname__=body.__name__
            body.__module__=rng.choice(mods).__name__
            return body
        deps=[present] if outcome!="missing" else [absent]
        r=rule(*deps, tags=tags, links=links)(mk())
        if outcome=="disabled": dr.set_enabled(r, False)
        rules.append((r,outcome,key,tags,links))
    graph={}
    for r,_,_,_,_ in rules: graph.update(dr.get_dependency_graph(r))
    for Ev in (SingleEvaluator, JsonFormat):
        b=dr.Broker(); buf=io.StringIO()
        ev = Ev(b, stream=buf) if Ev is SingleEvaluator else Ev(b, missing=True, show_rules=["rule","pass","info","none","metadata","fingerprint"], stream=buf)
        resp = ev.process(graph) if Ev is SingleEvaluator else None
        if Ev is JsonFormat:
            with ev: dr.run(graph, broker=b)
            resp=json.loads(buf.getvalue())
        total+=1
        heading={"fail":"reports","pass":"pass","info":"info","fingerprint":"fingerprints","none":"none"}
        for r,outcome,key,tags,links in rules:
            name=dr.get_name(r)
            found=[]
            for h in ("reports","pass","info","fingerprints","none"):
                for e in resp.get(h,[]):
                    if e["component"]==name: found.append((h,e))
            skips=[s for s in resp.get("skips",[]) if s["rule_fqdn"]==name]
            exc=b.exceptions.get(r,[])
            if outcome in heading:
                ok = len(found)==1 and found[0][0]==heading[outcome] and not skips and not exc
                if ok:
                    e=found[0][1]
                    k = key if outcome!="none" else "NONE_KEY"
                    ok = e["key"]==k and e["type"]==TYPEKEY[outcome] and sorted(e["tags"])==sorted(tags) and e["links"]==(links or {}) and e["%s_id"%TYPEKEY[outcome]]=="%s|%s"%(r.__module__.split(".")[-1],k)
                if not ok: bad[(Ev.__name__,outcome)]+=1; print(outcome, found, skips, exc)
            elif outcome=="missing":
                if not (len(skips)==1 and not found and not exc): bad[(Ev.__name__,outcome)]+=1
            elif outcome in ("nonresp","raise","badkey","reserved"):
                if not (len(exc)==1 and not found and not skips): bad[(Ev.__name__,outcome)]+=1; print(outcome, found, skips, exc)
            elif outcome in ("skip","disabled"):
                if found or skips or exc: bad[(Ev.__name__,outcome)]+=1
            elif outcome=="metadata":
                pass
print(total, dict(bad))
