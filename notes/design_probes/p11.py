import os, tempfile, shutil, sys
from insights.core import dr
from insights.core.context import HostContext
from insights.core.spec_factory import simple_file, glob_file
from insights.core.serde import Hydration
base = tempfile.mkdtemp(prefix="c06w_")
src = os.path.join(base, "srcdir"); os.makedirs(src); open(os.path.join(src,"f.txt"),"w").write("data\n")
out = os.path.join(base, "a", "b", "out"); os.makedirs(out)
# root "/" : relative path with many '..' stays inside root
rel = "/etc/../../../../../.." + src + "/f.txt"
ds = simple_file(rel, context=HostContext)
ds.__name__ = ds.__qualname__ = "esc_ds"
ctx = HostContext(root="/")
b = dr.Broker(); b[HostContext] = ctx
dr.run(dr.get_dependency_graph(ds), broker=b)
print("provider", b.get(ds), {k:v for k,v in b.exceptions.items()})
events=[]
def hook(ev, args):
    if ev in ("open","os.mkdir") : events.append((ev, args[0] if args else None))
sys.addaudithook(hook)
Hydration(out, ctx).dehydrate(ds, b)
created=[]
for dp, dn, fn in os.walk(base):
    for f in fn: created.append(os.path.join(dp,f))
print("\n".join(created))
print([e for e in events if isinstance(e[1],str) and "c06w_" in e[1]])
shutil.rmtree(base)
