from concurrent.futures import ThreadPoolExecutor
from insights.core import dr
from insights.core.context import HostContext
from insights.core.plugins import datasource, combiner
@datasource(HostContext)
def ds_a(broker): return "A"
@datasource(HostContext)
def ds_b(broker): return "B"
@combiner(ds_a)
def ca(a): return a+"!"
@combiner(ds_b)
def cb(b): return b+"!"
graph = {}
for c in (ca, cb): graph.update(dr.get_dependency_graph(c))
b = dr.Broker(); b[HostContext] = HostContext()
dr.run(graph, broker=b)
print("serial:", b.get(ca), b.get(cb), dict(b.exceptions))
b = dr.Broker(); b[HostContext] = HostContext()
with ThreadPoolExecutor(4) as pool:
    res = dr.run_all(graph, b, pool)
print("pool:", b.get(ca), b.get(cb), {dr.get_name(k): v for k, v in b.exceptions.items()})
print(len(res), [r is b for r in res])
print(len(list(dr.get_subgraphs(graph))))
