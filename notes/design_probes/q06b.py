import os, tempfile, shutil, sys, random
from insights.core import dr, blacklist
from insights.core.context import HostContext
from insights.core.plugins import datasource
from insights.core.spec_factory import (simple_file, glob_file, first_file, foreach_collect, simple_command, command_with_args, foreach_execute, RegistryPoint, SpecSet)
from insights.core.serde import Hydration
from insights import collect
rng = random.Random(int(sys.argv[1]) if len(sys.argv)>1 else 0)
EVENTS=[]; ON=[False]
def hook(ev,args):
    if not ON[0]: return
    if ev=="open": EVENTS.append(("open", str(args[0])))
    elif ev=="subprocess.Popen": EVENTS.append(("popen", list(args[1]) if not isinstance(args[1],str) else [args[1]]))
sys.addaudithook(hook)
base=tempfile.mkdtemp(prefix="c06b_"); root=os.path.join(base,"root"); bind=os.path.join(base,"bin"); os.makedirs(os.path.join(root,"etc","d")); os.makedirs(bind)
for n in ["catA","catB","catAB","echoC"]:
    shutil.copy("/bin/cat" if n.startswith("cat") else "/bin/echo", os.path.join(bind,n))
files=["etc/f1","etc/f2","etc/f1x","etc/d/g1","etc/d/g2","etc/d/g3","etc/e1","etc/e2"]
for f in files: open(os.path.join(root,f),"w").write("content of %s\n"%f)
A=os.path.join(bind,"catA"); B=os.path.join(bind,"catB"); AB=os.path.join(bind,"catAB"); C=os.path.join(bind,"echoC")
f1=os.path.join(root,"etc/f1")
class S(SpecSet):
    sf=RegistryPoint(); gf=RegistryPoint(multi_output=True); ff=RegistryPoint(); fc=RegistryPoint(multi_output=True)
    sc=RegistryPoint(); sc2=RegistryPoint(); sc3=RegistryPoint(); ca=RegistryPoint(); fe=RegistryPoint(multi_output=True)
class I(S):
    sf=simple_file("/etc/f1", context=HostContext)
    gf=glob_file("/etc/d/g*", context=HostContext)
    ff=first_file(["/etc/nope","/etc/f2","/etc/f1x"], context=HostContext)
    @datasource(HostContext)
    def names(broker): return ["e1","e2"]
    fc=foreach_collect(names, "/etc/%s", context=HostContext)
    sc=simple_command(A+" "+f1, context=HostContext)
    sc2=simple_command(AB+" "+f1, context=HostContext)
    sc3=simple_command(C+" hello world", context=HostContext)
    @datasource(HostContext)
    def arg(broker): return f1
    ca=command_with_args(B+" %s", arg, context=HostContext)
    @datasource(HostContext)
    def args(broker): return [os.path.join(root,"etc/e1"), os.path.join(root,"etc/e2")]
    fe=foreach_execute(args, B+" %s", context=HostContext)
POINTS=[S.sf,S.gf,S.ff,S.fc,S.sc,S.sc2,S.sc3,S.ca,S.fe]
deny_file_pool=["/etc/f1","/etc/f2","/etc/d/g2","/etc/e1","/etc/f","/etc/d","/etc/f1 "]
deny_cmd_pool=[A, A+" "+f1, B, B+" "+f1, AB, C+" hello", C+" hello world", B+" "+os.path.join(root,"etc/e2"), A[:-1]]
bad=0
for it in range(int(sys.argv[2]) if len(sys.argv)>2 else 60):
    blacklist._FILE_FILTERS.clear(); blacklist._COMMAND_FILTERS.clear(); del blacklist.BLACKLISTED_SPECS[:]
    dfiles=rng.sample(deny_file_pool, rng.randint(0,3)); dcmds=rng.sample(deny_cmd_pool, rng.randint(0,3))
    collect.apply_blacklist({"files":dfiles,"commands":dcmds})
    out=os.path.join(base,"out%d"%it)
    ctx=HostContext(root=root); b=dr.Broker(); b[HostContext]=ctx
    h=Hydration(out,ctx); b.add_observer(h.make_persister(set(POINTS)))
    graph={}
    for p in POINTS: graph.update(dr.get_dependency_graph(p))
    del EVENTS[:]; ON[0]=True
    dr.run(graph, broker=b)
    ON[0]=False
    for f in dfiles:
        full=os.path.join(root,f.lstrip("/"))
        for ev in EVENTS:
            if ev[0]=="open" and ev[1]==full: bad+=1; print("OPENED denied", f)
            if ev[0]=="popen" and full in ev[1] and any("grep" in x for x in ev[1][:1]): bad+=1; print("GREP denied", f)
    for c in dcmds:
        for ev in EVENTS:
            if ev[0]=="popen":
                j=" ".join(ev[1])
                if j==c or j.startswith(c+" "): bad+=1; print("EXEC denied", c, "->", j)
    shutil.rmtree(out, ignore_errors=True)
print("bad",bad, "events sample", EVENTS[:6])
shutil.rmtree(base)
