import random, sys, collections
from insights.parsers import parse_fixed_table, parse_delimited_table, split_kv_pairs, keyword_search
rng = random.Random(int(sys.argv[1]) if len(sys.argv)>1 else 0)
bad=collections.Counter(); n=collections.Counter()
W="abcXYZ019_-./:%"
def word(a=1,b=6): return "".join(rng.choice(W) for _ in range(rng.randint(a,b)))
def cell():
    r=rng.random()
    if r<0.15: return ""
    if r<0.5: return word()
    return word()+" "*rng.randint(1,3)+word(1,3)
for it in range(int(sys.argv[2]) if len(sys.argv)>2 else 3000):
    # fixed table
    ncol=rng.randint(1,6)
    hdr=[]
    for c in range(ncol):
        h=word(1,5).upper().replace(" ","")
        if hdr and rng.random()<0.3: h=hdr[-1][rng.randint(1,len(hdr[-1])):] or h   # suffix of previous header
        if h in hdr or not h: h=h+"Q%d"%c
        hdr.append(h)
    rows=[[cell() for _ in range(ncol)] for _ in range(rng.randint(0,5))]
    rows=[r for r in rows if any(r)]
    widths=[max([len(hdr[c])]+[len(r[c]) for r in rows])+rng.randint(1,3) for c in range(ncol)]
    indent=" "*rng.randint(0,2)
    def render(vals): return indent+"".join(v.ljust(w) for v,w in zip(vals,widths)).rstrip() if rng.random()<0.5 else indent+"".join(v.ljust(w) for v,w in zip(vals,widths))
    lines=[render(hdr)]+[render(r) for r in rows]
    junk=[]; kw={}
    if rng.random()<0.4:
        junk=["WARNING: junk %d"%i for i in range(rng.randint(1,2))]; kw["heading_ignore"]=[hdr[0]]
    foot=[]
    if rng.random()<0.4:
        foot=["Total: %d"%len(rows), ""] if rng.random()<0.5 else ["Total: x"]; kw["trailing_ignore"]=["Total"]
    try:
        got=parse_fixed_table(junk+lines+foot, **kw)
        exp=[dict(zip(hdr,r)) for r in rows]
        n["fixed"]+=1
        if got!=exp:
            bad["fixed"]+=1
            if bad["fixed"]<4: print("FIXED", junk+lines+foot, "\n got", got, "\n exp", exp)
    except Exception as e:
        bad["fixed-exc"]+=1
        if bad["fixed-exc"]<4: print("FIXEDEXC", type(e).__name__, e, junk+lines+foot, kw)
    # delimited
    delim=rng.choice([None,",","|",";",":"])
    def dcell():
        c=word() if delim is None else (rng.choice(["",word(),word()+" "+word(1,2)]))
        return c.replace(delim,"_") if delim else c
    hdr2=[word(1,4).replace(delim or "\0","_") for _ in range(rng.randint(1,5))]
    rows2=[[dcell() for _ in hdr2] for _ in range(rng.randint(0,5))]
    rows2=[r for r in rows2 if any(r)]
    sep=" "*rng.randint(1,3) if delim is None else rng.choice([delim, delim+" ", " "+delim+" "])
    lines2=[sep.join(hdr2)]+[sep.join(r) for r in rows2]
    # avoid rows whose strip changes edge blanks for printable delim: ok since delim not whitespace
    try:
        got=parse_delimited_table(lines2, delim=delim)
        exp=[]
        for r in rows2:
            d={}
            for h,c in zip(hdr2,r): d[h.strip()]=c.strip()
            exp.append(d)
        n["delim"]+=1
        if got!=exp:
            bad["delim"]+=1
            if bad["delim"]<4: print("DELIM", repr(delim), lines2, "\n got", got, "\n exp", exp)
    except Exception as e:
        bad["delim-exc"]+=1; print("DELIMEXC", e)
    # kv
    pairs=[]; doc=[]
    for i in range(rng.randint(0,6)):
        k=word(1,5).replace("=","").replace("#","") or "k"; v=(word(0,5)+rng.choice([""," = x","=y"," z"])).replace("#","").strip()
        pairs.append((k,v)); doc.append(rng.choice(["%s=%s","%s = %s"," %s= %s  "])%(k,v)+rng.choice([""," # trailing comment"]))
        if rng.random()<0.3: doc.append(rng.choice(["# comment = 1","","   "]))
    got=split_kv_pairs(doc, ordered=True)
    exp=collections.OrderedDict()
    for k,v in pairs: exp[k.strip()]=v
    n["kv"]+=1
    if list(got.items())!=list(exp.items()):
        bad["kv"]+=1
        if bad["kv"]<4: print("KV", doc, "\n got", list(got.items()), "\n exp", list(exp.items()))
print(dict(n), dict(bad))
