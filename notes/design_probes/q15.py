import random, sys, string, collections
from insights.core import IniConfigFile
from insights.tests import context_wrap
rng = random.Random(int(sys.argv[1]) if len(sys.argv)>1 else 0)
KEYCH = [c for c in string.printable if c not in string.whitespace and c not in "[]=:#;"] 
VALCH = [c for c in string.printable if c not in "\n\r\t\x0b\x0c#"]
def key():
    k="".join(rng.choice(KEYCH) for _ in range(rng.randint(1,6)))
    if rng.random()<0.3: k = k + " " + "".join(rng.choice(KEYCH) for _ in range(rng.randint(1,3)))
    return k
def val():
    v="".join(rng.choice(VALCH) for _ in range(rng.randint(0,10))).strip()
    return v
def sect():
    s="".join(rng.choice([c for c in KEYCH]+["=",":"," "]) for _ in range(rng.randint(1,8))).strip()
    return s or "s"
bad=collections.Counter(); n=0
for it in range(int(sys.argv[2]) if len(sys.argv)>2 else 2000):
    doc=[]; model=collections.OrderedDict()
    if rng.random()<0.5: doc.append(rng.choice(["# leading comment","; c",""]))
    nsec=rng.randint(1,4); names=[sect() for _ in range(nsec)]
    if rng.random()<0.3: names.append(names[0])
    for s in names:
        if s=="DEFAULT": continue
        doc.append(rng.choice(["[%s]","[ %s ]","[%s]  "])%s)
        sd=model.setdefault(s,{})
        keys=[key() for _ in range(rng.randint(0,4))]
        if keys and rng.random()<0.4: keys.append(rng.choice(keys).upper() if rng.random()<0.5 else rng.choice(keys))
        for k in keys:
            v=val()
            if v.startswith("["): v="x"+v
            sep=rng.choice(["=",":"," = "," : ","= "])
            doc.append("%s%s%s"%(k,sep,v))
            sd[k.strip().lower()]=v.rstrip(" \\")
            if rng.random()<0.3: doc.append(rng.choice(["# c = 1","; x: 2","","   "]))
    try:
        p=IniConfigFile(context_wrap("\n".join(doc)))
    except Exception as e:
        bad["exc:"+type(e).__name__]+=1
        if bad["exc:"+type(e).__name__]<4: print("EXC", repr(doc), str(e)[:200])
        continue
    n+=1
    if p.sections()!=list(model.keys()): bad["sections"]+=1; print("SEC", doc, p.sections(), list(model.keys())); continue
    for s,sd in model.items():
        got=p.items(s)
        if got!=sd:
            bad["items"]+=1
            if bad["items"]<6: print("ITEMS", doc, "\n got", got, "\n exp", sd)
print(n, dict(bad))
