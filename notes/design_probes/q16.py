import os, sys, random, tempfile, shutil, io, contextlib
from insights.client.config import InsightsConfig, DEFAULT_OPTS, DEFAULT_BOOLS
rng = random.Random(int(sys.argv[1]) if len(sys.argv)>1 else 0)
base = tempfile.mkdtemp(prefix="c16_")
conf = os.path.join(base, "insights-client.conf")
for k in list(os.environ):
    if k.upper().startswith("INSIGHTS_"): del os.environ[k]
bool_opts = [k for k,v in DEFAULT_OPTS.items() if type(v['default']) is bool]
cli_bool = [k for k in bool_opts if 'opt' in DEFAULT_OPTS[k] and DEFAULT_OPTS[k].get('action') in ('store_true','store_false')]
skip = {'analyze_container','analyze_image_id','analyze_file','analyze_mountpoint','use_atomic','use_docker','no_gpg','gpg','core_collect','version'}
str_opts = ['display_name','ansible_host','group','username','proxy','base_url','upload_url','branch_info_url','systemid']
num_opts = ['retries','cmd_timeout','http_timeout']
IMPLIED = {'no_upload','auto_update','to_json','register','keep_archive','diagnosis','net_debug','legacy_upload','logging_file','compressor','manifest','content_type','retries','output_dir','output_file','analyze_container'}
stats = {"ok":0,"rejected":0,"bad":0}
def run_case():
    file_kv = {}; env_kv = {}; cli = []; cli_kv = {}
    for k in bool_opts:
        if k in skip: continue
        if rng.random()<0.15: file_kv[k] = rng.choice(["True","False","true","false","yes","no","1","0","on","off"])
        if rng.random()<0.15: env_kv[k] = rng.choice(["True","False","true","FALSE"])
        if k in cli_bool and rng.random()<0.1:
            cli.append(DEFAULT_OPTS[k]['opt'][0]); cli_kv[k] = DEFAULT_OPTS[k]['action']=='store_true'
    for k in str_opts:
        if rng.random()<0.3: file_kv[k] = "f_"+k
        if rng.random()<0.3: env_kv[k] = "e_"+k
        if 'opt' in DEFAULT_OPTS[k] and rng.random()<0.3:
            cli += [DEFAULT_OPTS[k]['opt'][0], "c_"+k]; cli_kv[k]="c_"+k
    for k in num_opts:
        if rng.random()<0.3: file_kv[k] = str(rng.randint(1,9))
        if rng.random()<0.3: env_kv[k] = str(rng.randint(10,19))
    if rng.random()<0.3: cli += ["--retry", "25"]; cli_kv['retries']=25
    # unknown
    file_kv["no_such_opt"]="x"; env_kv["bogus"]="y"; env_kv["load_all"]="z"
    with open(conf,"w") as f:
        f.write("[insights-client]\n"); 
        for k,v in file_kv.items(): f.write("%s=%s\n"%(k,v))
    for k in list(os.environ):
        if k.upper().startswith("INSIGHTS_"): del os.environ[k]
    for k,v in env_kv.items(): os.environ["INSIGHTS_"+k.upper()] = v
    sys.argv = ["insights-client", "--conf", conf] + cli
    try:
        with contextlib.redirect_stderr(io.StringIO()), contextlib.redirect_stdout(io.StringIO()):
            c = InsightsConfig(_print_errors=False).load_all()
    except ValueError as e:
        stats["rejected"]+=1; return ("rej", str(e), file_kv, env_kv, cli)
    except SystemExit as e:
        stats["rejected"]+=1; return ("exit", str(e), file_kv, env_kv, cli)
    stats["ok"]+=1
    truth = {"true":True,"yes":True,"1":True,"on":True,"false":False,"no":False,"0":False,"off":False}
    problems=[]
    for k in DEFAULT_OPTS:
        if k in skip or k=='conf': continue
        if k in cli_kv: exp = cli_kv[k]
        elif k in env_kv:
            v=env_kv[k]; exp = True if v.lower()=="true" else False if v.lower()=="false" else v
            if k in ('retries','cmd_timeout'): exp=int(v)
            if k=='http_timeout': exp=float(v)
        elif k in file_kv:
            v=file_kv[k]
            exp = truth[v.lower()] if k in bool_opts else v
            if k in ('retries','cmd_timeout'): exp=int(v)
            if k=='http_timeout': exp=float(v)
        else: exp = DEFAULT_OPTS[k]['default']
        got = getattr(c,k)
        if k in IMPLIED: continue
        if got != exp or type(got)!=type(exp): problems.append((k,got,exp))
    extra = [k for k in vars(c) if not k.startswith('_') and k not in DEFAULT_OPTS]
    if extra: problems.append(("extra",extra))
    if c.offline and not (c.no_upload and not c.register and not c.auto_update): problems.append("offline-implications")
    if c.offline and any([c.status,c.test_connection,c.checkin,c.unregister,c.check_results,c.diagnosis,c.to_json]): problems.append("offline-combined")
    if c.obfuscate_hostname and not c.obfuscate: problems.append("obf")
    if problems:
        stats["bad"]+=1
        if stats["bad"]<8: print(problems[:3], cli)
for i in range(int(sys.argv[2]) if len(sys.argv)>2 else 1500):
    run_case()
print(stats)
shutil.rmtree(base)
