import os, sys, random, tempfile, shutil, re, collections
from insights.client import utilities as u
from insights.client.constants import InsightsConstants as constants
rng = random.Random(int(sys.argv[1]) if len(sys.argv)>1 else 0)
u._get_rhsm_identity = lambda: None
CANON = re.compile(r"^[0-9a-f]{8}-[0-9a-f]{4}-[0-9a-f]{4}-[0-9a-f]{4}-[0-9a-f]{12}$")
bad=collections.Counter(); nops=0
for it in range(int(sys.argv[2]) if len(sys.argv)>2 else 500):
    base=tempfile.mkdtemp(prefix="c17_")
    d1=os.path.join(base,"etc","insights-client"); d2=os.path.join(base,"etc","redhat-access-insights")
    constants.registered_files=[os.path.join(d1,".registered"),os.path.join(d2,".registered")]
    constants.unregistered_files=[os.path.join(d1,".unregistered"),os.path.join(d2,".unregistered")]
    idf=os.path.join(d1,"machine-id")
    victim=os.path.join(base,"victim"); open(victim,"w").write("VICTIM")
    vdir=os.path.join(base,"vdir"); os.makedirs(vdir)
    init=rng.choice(["absent","empty","id","legacy","upper","nl","both","sym"])
    if init!="absent": os.makedirs(d1)
    if rng.random()<0.6: os.makedirs(d2)
    if init=="id": open(idf,"w").write("dc194312-de5f-44a1-a7d0-c2d1b3f4e5a6")
    if init=="legacy": open(idf,"w").write("dc194312de5f44a1a7d0c2d1b3f4e5a6")
    if init=="upper": open(idf,"w").write("DC194312-DE5F-44A1-A7D0-C2D1B3F4E5A6")
    if init=="nl": open(idf,"w").write("dc194312-de5f-44a1-a7d0-c2d1b3f4e5a6\n")
    if init=="both":
        for f in constants.registered_files+constants.unregistered_files:
            if os.path.isdir(os.path.dirname(f)): open(f,"w").write("x")
    if init=="sym":
        for f in constants.registered_files+constants.unregistered_files:
            if os.path.isdir(os.path.dirname(f)) and rng.random()<0.6: os.symlink(rng.choice([victim, os.path.join(base,"dangling"), vdir]), f)
    last_id=None; marker_op_done=False; last_absent=False
    for step in range(rng.randint(1,15)):
        op=rng.choice(["read","read","regen","register","unregister","delreg","delunreg","plant","mkdir"])
        nops+=1
        if op in ("read","regen"):
            pre=None
            if os.path.isfile(idf): 
                st=os.stat(idf); pre=(st.st_ino,st.st_mtime_ns,open(idf,"rb").read())
            try: got=u.generate_machine_id(new=(op=="regen"), destination_file=idf)
            except SystemExit: bad["exit"]+=1; continue
            if not CANON.match(got): bad["noncanonical"]+=1; print("NONCANON",got)
            if op=="read":
                if last_id is not None and got!=last_id:
                    bad["id-changed" + ("-absentdir" if last_absent else "")]+=1
                if pre and pre[2].strip():
                    st=os.stat(idf)
                    if (st.st_ino,st.st_mtime_ns,open(idf,"rb").read())!=pre: bad["rewritten"]+=1
            last_id=got; last_absent = not os.path.isfile(idf)
        elif op=="register": u.write_registered_file(); marker_op_done=True
        elif op=="unregister": u.write_unregistered_file(); marker_op_done=True
        elif op=="delreg": u.delete_registered_file()
        elif op=="delunreg": u.delete_unregistered_file()
        elif op=="plant":
            f=rng.choice(constants.registered_files+constants.unregistered_files)
            if os.path.isdir(os.path.dirname(f)) and not os.path.lexists(f): os.symlink(rng.choice([victim, os.path.join(base,"dangling"), vdir]), f); marker_op_done=False if False else marker_op_done
            planted=True
        elif op=="mkdir":
            for d in (d1,d2):
                if not os.path.isdir(d) and rng.random()<0.5: os.makedirs(d)
        if op in ("register","unregister"):
            for d in (d1,d2):
                if os.path.lexists(os.path.join(d,".registered")) and os.path.lexists(os.path.join(d,".unregistered")):
                    bad["both-markers"]+=1; print("BOTH", init, op, os.listdir(d))
            files = constants.registered_files if op=="register" else constants.unregistered_files
            for f in files:
                if os.path.isdir(os.path.dirname(f)):
                    if os.path.islink(f): bad["symlink-kept"]+=1; print("SYMKEPT", f)
                    if not os.path.lexists(f): bad["marker-missing"]+=1
            if open(victim).read()!="VICTIM": bad["victim-written"]+=1
            if os.listdir(vdir): bad["vdir-written"]+=1
    shutil.rmtree(base)
print(nops, dict(bad))
