import random, sys, json, itertools, collections
from insights.core import taglang
from insights.parsr.examples import json_parser
rng = random.Random(int(sys.argv[1]) if len(sys.argv)>1 else 0)
TAGS=["a","b","c","net","x-y","t.1"]
def gen(d):
    if d==0 or rng.random()<0.3:
        return ("tag", rng.choice(TAGS)) if rng.random()<0.85 else ("re", rng.choice(["^n","e","y$","[ab]"]))
    k=rng.choice(["and","or","not"])
    if k=="not": return ("not", gen(d-1))
    return (k, gen(d-1), gen(d-1))
PREC={"or":1,"and":2,"not":3,"tag":4,"re":4}
def ws(): return " "*rng.randint(0,2)
def render(t, parent=0):
    k=t[0]
    if k=="tag":
        s=t[1] if rng.random()<0.7 else rng.choice(['"%s"',"'%s'"])%t[1]
        return s
    if k=="re":
        return "/"+(t[1] if rng.random()<0.5 else "'%s'"%t[1])+" "   # bare regex must end with whitespace
    if k=="not":
        inner=render(t[1],3)
        if inner.startswith("!"): inner="("+inner+")"
        s="!"+inner
    else:
        op={"and":"&","or":rng.choice(["|",","])}[k]
        # left-assoc: right child needs parens if same precedence
        s=render(t[1],PREC[k])+ws()+op+ws()+render(t[2],PREC[k]+1)
    if PREC[k]<parent or rng.random()<0.2: s="("+ws()+s+ws()+")"
    return s
def ev(t, tags):
    import re
    k=t[0]
    if k=="tag": return t[1] in tags
    if k=="re": return any(re.search(t[1],x) for x in tags)
    if k=="not": return not ev(t[1],tags)
    if k=="and": return ev(t[1],tags) and ev(t[2],tags)
    return ev(t[1],tags) or ev(t[2],tags)
bad=collections.Counter(); n=0
subsets=[set(c) for r in range(0,4) for c in itertools.combinations(TAGS+["network"],r)]
for it in range(int(sys.argv[2]) if len(sys.argv)>2 else 3000):
    t=gen(3); text=ws()+render(t)+ws()
    try: p=taglang.parse(text)
    except Exception as e:
        bad["parse-fail"]+=1
        if bad["parse-fail"]<5: print("PARSEFAIL", repr(text), t)
        continue
    n+=1
    for s in subsets:
        if bool(p(s))!=ev(t,s):
            bad["eval"]+=1
            if bad["eval"]<5: print("EVAL", repr(text), t, s)
            break
# JSON
def jv(d):
    r=rng.random()
    if d==0 or r<0.4: return rng.choice([0,1,-5,3.5,-0.25, "abc","x y","a:b,c",True,False,None,100000])
    if r<0.7: return [jv(d-1) for _ in range(rng.randint(0,3))]
    return dict(("k%d"%i if rng.random()<0.7 else "key %d"%i, jv(d-1)) for i in range(rng.randint(0,3)))
nj=0
for it in range(2000):
    v=jv(3); text=json.dumps(v, indent=rng.choice([None,1,2]), separators=rng.choice([(",",":"),(", ",": "),(" , "," : ")]))
    try: got=json_parser.loads(text)
    except Exception as e:
        bad["json-fail"]+=1
        if bad["json-fail"]<4: print("JSONFAIL", repr(text)[:200], str(e)[:100])
        continue
    nj+=1
    if got!=v or repr(got)!=repr(v):
        bad["json-diff"]+=1
        if bad["json-diff"]<4: print("JSONDIFF", text[:100], got, v)
print(n, nj, dict(bad))
