import random, itertools, sys, signal
from insights import parsr as P
FAIL = object()
# AST: tuples
def gen(rng, depth):
    prims = ["char","inset","string","literal","eof","anychar"]
    comb = ["seq","choice","many","until","opt","kl","kr","fb","nfb","map","lift"]
    if depth == 0 or rng.random() < 0.25:
        k = rng.choice(prims)
        if k == "char": return ("char", rng.choice("abc"))
        if k == "inset": return ("inset", "".join(rng.sample("abc", rng.randint(1,2))))
        if k == "string": return ("string", "".join(rng.sample("abc", rng.randint(1,2))), rng.randint(0,2))
        if k == "literal": return ("literal", "".join(rng.choice("abAB") for _ in range(rng.randint(1,2))), rng.random()<0.5, rng.choice([None, 7]))
        if k == "eof": return ("eof",)
        return ("anychar",)
    k = rng.choice(comb)
    g = lambda: gen(rng, depth-1)
    if k == "seq": return ("seq", [g() for _ in range(rng.randint(2,3))])
    if k == "choice": return ("choice", [g() for _ in range(rng.randint(2,3))])
    if k == "many": return ("many", g(), rng.randint(0,2))
    if k == "until": return ("until", g(), g())
    if k == "opt": return ("opt", g(), rng.choice([None, "D"]))
    if k in ("kl","kr","fb","nfb"): return (k, g(), g())
    if k == "map": return ("map", g(), rng.choice(["repr","bt_if_a"]))
    if k == "lift": return ("lift", [g() for _ in range(rng.randint(1,2))])

def fmap(name):
    if name == "repr": return lambda v: ("M", repr(v))
    def f(v):
        if "a" in repr(v): raise P.Backtrack("no")
        return ("N", repr(v))
    return f
def flift(*a): return ("L",) + tuple(repr(x) for x in a)

def ref(t, s, pos):
    k = t[0]
    c = s[pos] if pos < len(s) else None
    if k == "char": return (pos+1, t[1]) if c == t[1] else FAIL
    if k == "inset": return (pos+1, c) if c is not None and c in t[1] else FAIL
    if k == "anychar": return (pos+1, c) if c is not None else FAIL
    if k == "eof": return (pos, None) if c is None else FAIL
    if k == "string":
        p = pos
        while p < len(s) and s[p] in t[1]: p += 1
        return (p, s[pos:p]) if p-pos >= t[2] else FAIL
    if k == "literal":
        lit, ic, val = t[1], t[2], t[3]
        seg = s[pos:pos+len(lit)]
        if ic:
            if len(seg)==len(lit) and seg.lower()==lit.lower(): return (pos+len(lit), seg if val is None else val)
            return FAIL
        if seg == lit: return (pos+len(lit), lit if val is None else val)
        return FAIL
    if k == "seq":
        out=[]
        for x in t[1]:
            r = ref(x,s,pos)
            if r is FAIL: return FAIL
            pos,v = r; out.append(v)
        return (pos,out)
    if k == "choice":
        for x in t[1]:
            r = ref(x,s,pos)
            if r is not FAIL: return r
        return FAIL
    if k == "many":
        out=[]
        while True:
            r = ref(t[1],s,pos)
            if r is FAIL: break
            if r[0]==pos: raise RuntimeError("nonconsuming")
            pos,v=r; out.append(v)
        return (pos,out) if len(out)>=t[2] else FAIL
    if k == "until":
        out=[]
        while True:
            if ref(t[2],s,pos) is not FAIL: break
            r = ref(t[1],s,pos)
            if r is FAIL: break
            if r[0]==pos: raise RuntimeError("nonconsuming")
            pos,v=r; out.append(v)
        return (pos,out)
    if k == "opt":
        r = ref(t[1],s,pos)
        return r if r is not FAIL else (pos, t[2])
    if k in ("kl","kr"):
        r1 = ref(t[1],s,pos)
        if r1 is FAIL: return FAIL
        r2 = ref(t[2],s,r1[0])
        if r2 is FAIL: return FAIL
        return (r2[0], r1[1] if k=="kl" else r2[1])
    if k == "fb":
        r1 = ref(t[1],s,pos)
        if r1 is FAIL: return FAIL
        return r1 if ref(t[2],s,r1[0]) is not FAIL else FAIL
    if k == "nfb":
        r1 = ref(t[1],s,pos)
        if r1 is FAIL: return FAIL
        return r1 if ref(t[2],s,r1[0]) is FAIL else FAIL
    if k == "map":
        r = ref(t[1],s,pos)
        if r is FAIL: return FAIL
        try: return (r[0], fmap(t[2])(r[1]))
        except P.Backtrack: return FAIL
    if k == "lift":
        out=[]
        for x in t[1]:
            r = ref(x,s,pos)
            if r is FAIL: return FAIL
            pos,v=r; out.append(v)
        return (pos, flift(*out))

def build(t):
    k=t[0]
    if k=="char": return P.Char(t[1])
    if k=="inset": return P.InSet(t[1])
    if k=="anychar": return P.AnyChar
    if k=="eof": return P.EOF
    if k=="string": return P.String(t[1], min_length=t[2])
    if k=="literal":
        return P.Literal(t[1], ignore_case=t[2]) if t[3] is None else P.Literal(t[1], value=t[3], ignore_case=t[2])
    if k=="seq": return P.Sequence([build(x) for x in t[1]])
    if k=="choice": return P.Choice([build(x) for x in t[1]])
    if k=="many": return P.Many(build(t[1]), lower=t[2])
    if k=="until": return P.Until(build(t[1]), build(t[2]))
    if k=="opt": return P.Opt(build(t[1]), t[2])
    if k=="kl": return P.KeepLeft(build(t[1]), build(t[2]))
    if k=="kr": return P.KeepRight(build(t[1]), build(t[2]))
    if k=="fb": return P.FollowedBy(build(t[1]), build(t[2]))
    if k=="nfb": return P.NotFollowedBy(build(t[1]), build(t[2]))
    if k=="map": return P.Map(build(t[1]), fmap(t[2]))
    if k=="lift":
        l = P.Lift(flift)
        for x in t[1]: l = l * build(x)
        return l

inputs = [""]
for n in range(1,5):
    inputs += ["".join(x) for x in itertools.product("abAB"[:3]+"c", repeat=n)] if False else ["".join(x) for x in itertools.product("abA", repeat=n)]
rng = random.Random(int(sys.argv[1]) if len(sys.argv)>1 else 0)
signal.alarm(120)
ndiv=0; ngram=0; skipped=0
for i in range(3000):
    t = gen(rng, 3)
    try:
        for s in inputs: ref(t, s, 0)
    except RuntimeError:
        skipped+=1; continue
    ngram+=1
    p = build(t)
    for s in inputs:
        exp = ref(t,s,0)
        data = list(s)+[None]
        ctx = P.Context(data)
        try:
            got = p.process(0, data, ctx)
        except Exception as e:
            got = FAIL
        if (exp is FAIL) != (got is FAIL) or (exp is not FAIL and (exp[0]!=got[0] or exp[1]!=got[1])):
            ndiv+=1
            if ndiv<=8: print("DIV", t, repr(s), "exp", exp if exp is not FAIL else "FAIL", "got", got if got is not FAIL else "FAIL")
            break
print("grammars", ngram, "skipped", skipped, "divergent", ndiv)
