import random, sys
from insights.parsr import query as Q
from insights.parsr.query import Entry
rng = random.Random(int(sys.argv[1]) if len(sys.argv)>1 else 0)
NAMES = ["a","b","ab","A","c", "dir"]
ATTRS = ["a","b","ab","x", 1, 2, 80, "Ab"]
def gtree(depth):
    kids = [gtree(depth-1) for _ in range(rng.randint(0,3))] if depth>0 else []
    return Entry(name=rng.choice(NAMES), attrs=tuple(rng.choice(ATTRS) for _ in range(rng.randint(0,3))), children=kids)
def preorder(nodes):
    out=[]
    for n in nodes:
        out.append(n); out.extend(preorder(n.children))
    return out
# predicates: (real_obj, ref_fn)
def gpred(depth, for_name):
    if depth==0 or rng.random()<0.4:
        k = rng.choice(["eq","startswith","contains","endswith","ieq","icontains","lt","ge","isin"])
        if k in ("lt","ge"):
            v = rng.choice([1,2,50]) if not for_name else rng.choice(NAMES)
        elif k=="isin":
            v = rng.sample(ATTRS,2)
        else:
            v = rng.choice(["a","b","ab","A"])
        real = getattr(Q,k)(v)
        import operator
        fns = {"eq":lambda x:x==v,"startswith":lambda x:str.startswith(x,v),"contains":lambda x:operator.contains(x,v),"endswith":lambda x:str.endswith(x,v),
               "ieq":lambda x:(x.lower() if isinstance(x,str) else x)==v.lower(),"icontains":lambda x:operator.contains(x.lower() if isinstance(x,str) else x, v.lower()),
               "lt":lambda x:x<v,"ge":lambda x:x>=v,"isin":lambda x:x in set(v)}
        return real, fns[k], k
    k = rng.choice(["and","or","not"])
    if k=="not":
        r,f,d = gpred(depth-1, for_name); return ~r, ("not", f), "~"+d
    r1,f1,d1 = gpred(depth-1, for_name); r2,f2,d2 = gpred(depth-1, for_name)
    return ((r1&r2),("and",f1,f2),"(%s&%s)"%(d1,d2)) if k=="and" else ((r1|r2),("or",f1,f2),"(%s|%s)"%(d1,d2))
class Raised(Exception): pass
def ev(f, x):
    # returns truth, raising Raised if any leaf raises (strict whole-expression semantics like compiled)
    if isinstance(f, tuple):
        if f[0]=="not": return not ev(f[1],x)
        if f[0]=="and": return ev(f[1],x) and ev(f[2],x)
        if f[0]=="or": return ev(f[1],x) or ev(f[2],x)
    try: return bool(f(x))
    except Exception: raise Raised()
def evq(f,x):
    try: return ev(f,x)
    except Raised: return False
def glevel():
    # returns (real_query, ref_fn(node)->bool, desc)
    k = rng.choice(["name","None","tuple","tuple2","pred","predtuple"])
    if k=="name":
        n = rng.choice(NAMES); return n, (lambda e: e._name==n), n
    if k=="None": return None, (lambda e: True), "None"
    if k=="tuple":
        n = rng.choice(NAMES+[None]); a = rng.choice(ATTRS)
        return (n,a), (lambda e: (n is None or e._name==n) and any(x==a for x in e.attrs)), str((n,a))
    if k=="tuple2":
        n = rng.choice(NAMES+[None]); a = rng.choice(ATTRS); b = rng.choice(ATTRS)
        return (n,a,b), (lambda e: (n is None or e._name==n) and any(x==a or x==b for x in e.attrs)), str((n,a,b))
    if k=="pred":
        r,f,d = gpred(2, True); return r, (lambda e: evq(f, e._name)), d
    r,f,d = gpred(2, False); n = rng.choice(NAMES+[None])
    return (n, r), (lambda e: (n is None or e._name==n) and any(evq(f,x) for x in e.attrs)), str((n,d))
def refselect(levels, nodes, deep, roots, top):
    cur = preorder(nodes) if deep else list(nodes)
    for i,(_,f,_) in enumerate(levels):
        res = [n for n in cur if f(n)]
        if i < len(levels)-1 and res:
            cur = [c for n in res for c in n.children]
        else:
            cur = res; break
    if roots:
        out=[]; 
        for n in cur:
            r = n
            while r.parent is not None: r = r.parent
            if all(r is not o for o in out): out.append(r)
        return out
    return cur
bad=0; total=0; order_only=0
for i in range(3000):
    top = gtree(3)
    for j in range(10):
        levels = [glevel() for _ in range(rng.randint(1,3))]
        deep = rng.random()<0.5; roots = rng.random()<0.3
        got = top.select(*[l[0] for l in levels], deep=deep, roots=roots).children
        exp = refselect(levels, top.children, deep, roots, top)
        total+=1
        if [id(x) for x in got] != [id(x) for x in exp]:
            if sorted(id(x) for x in got)==sorted(id(x) for x in exp): order_only+=1; continue
            bad+=1
            if bad<6: print("DIFF", [l[2] for l in levels], deep, roots, len(got), len(exp))
print("total", total, "bad", bad, "order_only", order_only)
