import sys
from insights.cleaner import Cleaner
class Cfg: 
    obfuscate=True; obfuscate_hostname=True; obfuscate_ipv6=False; obfuscate_mac=True
c = Cleaner(Cfg(), {"keywords": ["node"], "patterns": ["DROPME"]}, fqdn="node1.example.org")
lines = ["host node1.example.org ip 192.168.1.5 mac aa:bb:cc:dd:ee:ff password: hunter2", "other.example.org node1 x", "DROPME 1.2.3.4"]
out = c.clean_content(lines)
print(out)
print([type(p).__name__ for p in [c.obfuscate[k] for k in (set(c.obfuscate.keys()))] if p])
