import random, sys, collections, json, time
from concurrent.futures import ThreadPoolExecutor
from insights.core import dr
from insights.core.plugins import component, combiner, condition, rule, datasource, make_pass, Response
from insights.core.exceptions import SkipComponent, ContentException, CalledProcessError
class plain(dr.ComponentType): pass
rng = random.Random(int(sys.argv[1]) if len(sys.argv)>1 else 0)
KINDS=[plain, component, combiner, condition, rule]
class Boom(Exception): pass
def build(it, n, parts):
    comps=[]; spec=[]; LOG=[]
    for i in range(n):
        part=rng.randrange(parts)
        prev=[j for j in range(i) if spec[j]["part"]==part]
        kind=rng.choice(KINDS)
        req=rng.sample(prev,min(len(prev),rng.randint(0,2)))
        groups=[rng.sample(prev,min(len(prev),rng.randint(1,2))) for _ in range(rng.randint(0,1))] if prev else []
        opt=rng.sample(prev,min(len(prev),rng.randint(0,2)))
        outcome=rng.choice(["value"]*5+["skip","ce","cpe","boom"])
        spec.append(dict(part=part,kind=kind,outcome=outcome))
        def mk(i=i,outcome=outcome,kind=kind):
            def body(*args):
                LOG.append(i)
                if rng_sleep[0]: time.sleep(0)
                if outcome=="skip": raise SkipComponent("s%d"%i)
                if outcome=="ce": raise ContentException("c%d"%i)
                if outcome=="cpe": raise CalledProcessError(1,"cmd%d"%i,"")
                if outcome=="boom": raise Boom("b%d"%i)
                if kind is rule: return make_pass("K%d"%i, a=repr([repr(x) for x in args]))
                return ("v",i,tuple(repr(a) for a in args))
            body.__name__=body.__qualname__="n%d_%d"%(it,i)
            return body
        deps=[comps[j] for j in req]+[[comps[j] for j in g] for g in groups]
        comps.append(kind(*deps, optional=[comps[j] for j in opt])(mk()))
    return spec, comps, LOG
rng_sleep=[False]
def digest(brokers):
    inst={}; exc={}; miss={}
    for b in brokers:
        for k,v in b.instances.items(): inst[dr.get_name(k)]=repr(dict(v)) if isinstance(v,Response) else repr(v)
        for k,v in b.exceptions.items(): exc.setdefault(dr.get_name(k),[]).extend(sorted((type(e).__name__,str(e)) for e in v))
        for k,v in b.missing_requirements.items(): miss[dr.get_name(k)]=([dr.get_name(x) for x in v[0]],[[dr.get_name(x) for x in g] for g in v[1]])
    return json.dumps([inst,exc,miss],sort_keys=True)
def random_extension(graph):
    indeg={k:set(d for d in v if d in graph) for k,v in graph.items()}
    order=[]; avail=[k for k,v in indeg.items() if not v]
    while avail:
        k=avail.pop(rng.randrange(len(avail))); order.append(k)
        for m,v in indeg.items():
            if k in v:
                v.discard(k)
                if not v and m not in order and m not in avail: avail.append(m)
    return order
bad=collections.Counter(); n=0; exts=set()
for it in range(int(sys.argv[2]) if len(sys.argv)>2 else 150):
    spec,comps,LOG=build(it, rng.randint(3,14), rng.randint(1,4))
    graph={}
    for c in comps: graph.update(dr.get_dependency_graph(c))
    d0=digest([dr.run(dict(graph))]); n+=1
    for k in range(5):
        order=random_extension(graph); exts.add(tuple(id(x) for x in order))
        del LOG[:]
        d=digest([dr.run_components(order, graph, dr.Broker())])
        if d!=d0: bad["extension"]+=1
        if sorted(LOG)!=sorted(set(LOG)): bad["dup-invocation"]+=1
    subs=list(dr.get_subgraphs(graph))
    keys=[set(s) for s in subs]
    if set().union(*keys)!=set(graph) or sum(len(k) for k in keys)!=len(graph): bad["partition"]+=1
    d=digest(list(dr.run_incremental(dict(graph))))
    if d!=d0: bad["incremental"]+=1
    b=dr.Broker(); list(dr.run_incremental(dict(graph), broker=b))
    if digest([b])!=d0: bad["incremental-shared"]+=1
    rng_sleep[0]=True
    for w in (1,2,4,8):
        with ThreadPoolExecutor(w) as pool:
            res=dr.run_all(dict(graph), None, pool)
        if digest(res)!=d0: bad["pool%d"%w]+=1
        b=dr.Broker()
        with ThreadPoolExecutor(w) as pool:
            dr.run_all(dict(graph), b, pool)
        if digest([b])!=d0: bad["pool-shared%d"%w]+=1
    rng_sleep[0]=False
print(n, len(exts), dict(bad))
