import random, sys, collections
from insights.core import dr
from insights.core.context import HostContext, HostArchiveContext, SosArchiveContext, SerializedArchiveContext, ExecutionContext
from insights.core.plugins import datasource
from insights.core.exceptions import SkipComponent, ContentException
from insights.core.spec_factory import RegistryPoint, SpecSet
class CtxA(ExecutionContext): pass
class CtxB(ExecutionContext): pass
CTXS=[HostContext, HostArchiveContext, SosArchiveContext, CtxA, CtxB]
rng = random.Random(int(sys.argv[1]) if len(sys.argv)>1 else 0)
bad=collections.Counter(); total=0; nontriv=0
for it in range(int(sys.argv[2]) if len(sys.argv)>2 else 300):
    LOG=[]
    npts=rng.randint(1,3)
    S = type("S%d"%it, (SpecSet,), dict(("p%d"%k, RegistryPoint(multi_output=rng.random()<0.3, filterable=rng.random()<0.3)) for k in range(npts)))
    impls=collections.defaultdict(list)  # point name -> list of (ctxset, outcome, tag)
    for ci in range(rng.randint(1,6)):
        body={}
        for k in range(npts):
            if rng.random()<0.7:
                form=rng.choice(["one","any","via"])
                outcome=rng.choice(["ok","ok","ok","skip","ce","boom"])
                tag="i%d_%d_%d"%(it,ci,k)
                if form=="one":
                    cs=[rng.choice(CTXS)]; deps=[cs[0]]
                elif form=="any":
                    cs=rng.sample(CTXS,2); deps=[list(cs)]
                else:
                    cs=[rng.choice(CTXS)]
                    @datasource(cs[0])
                    def helper(broker): return "h"
                    helper.__qualname__=helper.__name__="helper_"+tag
                    deps=[helper]
                def mk(tag=tag,outcome=outcome):
                    def f(broker):
                        LOG.append(tag)
                        if outcome=="skip": raise SkipComponent()
                        if outcome=="ce": raise ContentException("x")
                        if outcome=="boom": raise RuntimeError("b")
                        return tag
                    f.__name__=f.__qualname__="f_"+tag
                    return f
                d=datasource(*deps)(mk())
                body["p%d"%k]=d
                impls["p%d"%k].append((set(cs),outcome,tag))
        type("I%d_%d"%(it,ci),(S,),body)
    for active in CTXS:
        LOG.clear()
        b=dr.Broker(); b[active]=active()
        graph={}
        for k in range(npts): graph.update(dr.get_dependency_graph(getattr(S,"p%d"%k)))
        dr.run(graph, broker=b)
        total+=1
        for k in range(npts):
            name="p%d"%k
            cands=[x for x in impls[name] if active in x[0]]
            if len(cands)>=2: nontriv+=1
            point=getattr(S,name)
            invoked=[t for t in LOG if t.endswith("_%d"%k) and any(t==x[2] for x in impls[name])]
            if not cands:
                if point in b or invoked: bad["no-cand-but-value"]+=1
                continue
            w=cands[-1]
            if invoked!=[w[2]]:
                bad["invoked"]+=1
                if bad["invoked"]<5: print("INV", active.__name__, name, impls[name], invoked)
            if w[1]=="ok":
                if b.get(point)!=w[2]: bad["value"]+=1; print("VAL", active.__name__, impls[name], b.get(point))
            else:
                if point in b: bad["fallback"]+=1; print("FALLBACK", active.__name__, impls[name], b.get(point))
print(total, nontriv, dict(bad))
