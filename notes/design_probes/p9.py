from insights.core import dr
from insights.core.context import HostContext, HostArchiveContext, SosArchiveContext
from insights.core.plugins import datasource
from insights.core.exceptions import SkipComponent, ContentException
from insights.core.spec_factory import RegistryPoint, SpecSet
LOG = []
def mk(name, ctxs, outcome):
    deps = [ctxs] if isinstance(ctxs, list) else [ctxs]
    @datasource(*deps)
    def f(broker):
        LOG.append(name)
        if outcome == "skip": raise SkipComponent()
        if outcome == "ce": raise ContentException("x")
        if outcome == "boom": raise RuntimeError("boom")
        return name
    return f
class S(SpecSet):
    x = RegistryPoint()
class I1(S):
    x = mk("i1", HostContext, "ok")
class I2(S):
    x = mk("i2", [HostContext, HostArchiveContext], "ok")
class I3(S):
    x = mk("i3", HostContext, "skip")
class I4(S):
    x = mk("i4", SosArchiveContext, "ok")
for ctx in (HostContext, HostArchiveContext, SosArchiveContext):
    LOG.clear()
    b = dr.Broker(); b[ctx] = ctx()
    dr.run(dr.get_dependency_graph(S.x), broker=b)
    print(ctx.__name__, "value:", b.get(S.x), "invoked:", LOG, "ignore:", {k.__qualname__: [c.__name__ for c in v] for k, v in dr.IGNORE.items() if v})
