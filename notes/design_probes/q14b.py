import random, sys, json, collections, yaml
from insights.core import CommandParser, JSONParser, YAMLParser, TextFileOutput
from insights.core.exceptions import ContentException, ParseException, SkipComponent
from insights.tests import context_wrap
rng = random.Random(int(sys.argv[1]) if len(sys.argv)>1 else 0)
bad=collections.Counter(); n=collections.Counter(); exc_types=collections.Counter()
SINGLE=["no such file or directory","not a directory","command not found","no module named","no files found for"]
MULTI=["missing dependencies:"]
class CP(CommandParser):
    def parse_content(self, content): self.got=content
def rc(s): return "".join(ch.upper() if rng.random()<0.5 else ch for ch in s)
for it in range(int(sys.argv[2]) if len(sys.argv)>2 else 4000):
    nl=rng.randint(0,4); lines=[]
    for i in range(nl):
        r=rng.random()
        base="line %d data"%i
        if r<0.25: base="pre "+rc(rng.choice(SINGLE))+" post"
        elif r<0.35: base="x "+rc(rng.choice(MULTI))+" y"
        elif r<0.45: base="No such file"   # near miss
        elif r<0.5: base="EXTRA bad"
        lines.append(base)
    extra = ["extra bad"] if rng.random()<0.3 else None
    ctx=context_wrap(lines)
    content=ctx.content
    low=[l.lower() for l in content]
    if len(content)==1: expbad=any(p in low[0] for p in SINGLE)
    elif len(content)>1: expbad=any(p in l for p in MULTI for l in low)
    else: expbad=False
    if not expbad and extra and content: expbad=any("extra bad" in l for l in low)
    try:
        p=CP(ctx, extra_bad_lines=extra) if extra else CP(ctx); res="ok"
    except ContentException: res="ce"
    except Exception as e: res=type(e).__name__
    n["cmd"]+=1
    if (res=="ce")!=expbad or (res=="ok" and p.got!=content) or res not in ("ok","ce"):
        bad["cmd"]+=1
        if bad["cmd"]<5: print("CMD", content, extra, res, expbad)
    # JSON/YAML
    def val(d):
        r=rng.random()
        if d==0 or r<0.4: return rng.choice([0,1,-7,2.5,"","s","a b","x: y","- z","#h","true","null","é",True,False,None,"1","[x]","{y}","'q'",'"dq"'])
        if r<0.7: return [val(d-1) for _ in range(rng.randint(0,3))]
        return dict((rng.choice(["k","key 2","a:b","#k","3","true"])+str(i), val(d-1)) for i in range(rng.randint(0,3)))
    v=val(3)
    if not isinstance(v,(dict,list)): v=[v]
    text=json.dumps(v, indent=rng.choice([None,2]), ensure_ascii=rng.random()<0.5)
    noise=["Warning: something" , "INFO loading"][:rng.randint(0,2)]
    kind=rng.choice(["valid","trunc","garbage","null","empty"])
    if kind=="trunc": text=text[:max(1,len(text)-rng.randint(1,5))]
    if kind=="garbage": text=text+" }{"
    if kind=="null": text="null"
    if kind=="empty": text=""
    lines=noise+text.splitlines()
    try:
        jp=JSONParser(context_wrap(lines)); res=("ok",jp.data)
    except SkipComponent: res=("skip",)
    except ParseException: res=("parse",)
    except Exception as e: res=("other",type(e).__name__)
    exc_types[res[0]]+=1
    n["json"]+=1
    try: ref=("ok",json.loads(text)) if text.strip() else ("skip",)
    except Exception: ref=("parse",)
    if ref==("ok",None): ref=("skip",)
    if kind=="empty" and noise: ref=("parse",)   # noise only: not a document
    if res!=ref and not (res[0]=="ok" and ref[0]=="ok" and res[1]==ref[1]):
        if kind=="null" and noise: pass
        else:
            bad["json-"+kind]+=1
            if bad["json-"+kind]<3: print("JSON", kind, lines[:4], res[0], ref[0])
    elif res[0]=="ok" and getattr(jp,"unparsed_lines",None)!=noise[:len(noise)] and kind=="valid": bad["json-unparsed"]+=1
    # YAML
    ytext=yaml.safe_dump(v, default_flow_style=rng.choice([True,False,None]), allow_unicode=rng.random()<0.5)
    try:
        yp=YAMLParser(context_wrap(ytext)); yres=("ok",yp.data)
    except SkipComponent: yres=("skip",)
    except ParseException: yres=("parse",)
    except Exception as e: yres=("other",type(e).__name__)
    n["yaml"]+=1
    if yres!=("ok",v):
        if v in ([],{}) and yres[0] in ("ok",): pass
        else:
            bad["yaml"]+=1
            if bad["yaml"]<5: print("YAML", repr(ytext)[:120], yres, v)
print(dict(n), dict(bad), dict(exc_types))
