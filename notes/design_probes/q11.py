import os, tempfile, shutil, random, sys, json
from insights.core import dr
from insights.core.context import HostContext, SerializedArchiveContext
from insights.core.plugins import datasource
from insights.core.spec_factory import (simple_file, glob_file, simple_command, foreach_execute, RegistryPoint, SpecSet, DatasourceProvider, RawFileProvider)
from insights.core.serde import Hydration
from insights.core.hydration import initialize_broker
rng = random.Random(int(sys.argv[1]) if len(sys.argv)>1 else 0)
base = tempfile.mkdtemp(prefix="c11_")
root = os.path.join(base,"root"); os.makedirs(os.path.join(root,"etc","d"))
def gl():
    alpha = "ab \té中\U0001F600#=:;'\"\\"
    return "".join(rng.choice(alpha) for _ in range(rng.randint(0,12)))
def content():
    lines=[gl() for _ in range(rng.randint(0,6))]
    lines += [""]*rng.randint(0,3)
    return lines
files={}
for name in ["etc/one","etc/two","etc/d/g1","etc/d/g2","etc/d/g3","etc/raw"]:
    c=content(); files[name]=c
    open(os.path.join(root,name),"w",encoding="utf-8").write("\n".join(c))
class Specs(SpecSet):
    one=RegistryPoint(); two=RegistryPoint(); globs=RegistryPoint(multi_output=True); raw=RegistryPoint(raw=True)
    cmd=RegistryPoint(); mem=RegistryPoint(); each=RegistryPoint(multi_output=True); lst=RegistryPoint()
MEM=content()
class Impl(Specs):
    one=simple_file("/etc/one", context=HostContext)
    two=simple_file("/etc/two", save_as="/renamed/two_saved", context=HostContext)
    globs=glob_file("/etc/d/g*", context=HostContext)
    raw=simple_file("/etc/raw", kind=RawFileProvider, context=HostContext)
    cmd=simple_command("/bin/cat %s" % os.path.join(root,"etc/one"), context=HostContext)
    @datasource(HostContext)
    def lst(broker): return ["etc/d/g1","etc/d/g3"]
    each=foreach_execute(lst, "/bin/cat "+root+"/%s", context=HostContext)
    @datasource(HostContext)
    def mem(broker): return DatasourceProvider(MEM, relative_path="mem/file", ctx=broker[HostContext])
out=os.path.join(base,"out")
b=dr.Broker(); ctx=HostContext(root=root); b[HostContext]=ctx
h=Hydration(out, ctx)
to_persist=set([Specs.one,Specs.two,Specs.globs,Specs.raw,Specs.cmd,Specs.mem,Specs.each])
b.add_observer(h.make_persister(to_persist))
graph={}
for c in to_persist: graph.update(dr.get_dependency_graph(c))
dr.run(graph, broker=b)
open(os.path.join(out,"insights_archive.txt"),"w").close()
print({dr.get_name(k):[str(e)[:80] for e in v] for k,v in b.exceptions.items()})
print(sorted(os.listdir(os.path.join(out,"meta_data"))))
ctx2, b2 = initialize_broker(out)
print(type(ctx2).__name__)
def norm(l):
    l=list(l)
    if l and l[-1]=="": l=l[:-1]
    return l
for sp,orig in [(Specs.one,files["etc/one"]),(Specs.two,files["etc/two"]),(Specs.cmd,files["etc/one"]),(Specs.mem,MEM)]:
    orig=b[sp].content
    p=b2.get(sp)
    if p is None: print(sp,"ABSENT; orig", orig); continue
    print(sp, "eq" if norm(p.content)==norm(orig) or p.content==orig else ("DIFF",p.content,orig), p.relative_path, p.cmd, p.args)
g=b2.get(Specs.globs); print("globs", [x.relative_path for x in g] if g else None, [norm(x.content)==norm(y.content) for x,y in zip(g,b[Specs.globs])] if g else None)
e=b2.get(Specs.each); print("each", [(x.relative_path,x.args) for x in e] if e else None)
r=b2.get(Specs.raw); print("raw", r.content=="\n".join(files["etc/raw"]).encode() if r else None)
shutil.rmtree(base)
