import random, sys, itertools, gc
from insights.core import dr
from insights.core.plugins import component, combiner, condition, rule, datasource, parser, make_pass, Response
from insights.core.exceptions import SkipComponent, ContentException, CalledProcessError, TimeoutException
class plain(dr.ComponentType): pass
rng = random.Random(int(sys.argv[1]) if len(sys.argv)>1 else 0)
KINDS = [plain, component, combiner, condition, rule, datasource]
class Boom(Exception): pass
def build(n):
    nodes=[]; spec=[]
    LOG=[]
    for i in range(n):
        kind = rng.choice(KINDS)
        prev = list(range(i))
        req = rng.sample(prev, min(len(prev), rng.randint(0,2)))
        groups = [rng.sample(prev, min(len(prev), rng.randint(1,3))) for _ in range(rng.randint(0,2))] if prev else []
        opt = rng.sample(prev, min(len(prev), rng.randint(0,2)))
        outcome = rng.choice(["value"]*5+["skip","ce","cpe","timeout","boom"])
        enabled = rng.random()>0.1
        seeded = rng.random()<0.1
        spec.append(dict(kind=kind, req=req, groups=groups, opt=opt, outcome=outcome, enabled=enabled, seeded=seeded))
    comps=[]
    for i,s in enumerate(spec):
        exc = {"skip":SkipComponent("s%d"%i),"ce":ContentException("c%d"%i),"cpe":CalledProcessError(1,"cmd%d"%i,""),"timeout":TimeoutException("t%d"%i),"boom":Boom("b%d"%i)}.get(s["outcome"])
        s["exc"]=exc
        def mk(i=i,s=s,exc=exc):
            def body(*args):
                LOG.append((i,args))
                if exc is not None: raise exc
                if s["kind"] is rule: return make_pass("K%d"%i, v=i)
                return ("v",i)
            body.__name__="n%d"%i
            return body
        deps = [comps[j] for j in s["req"]] + [[comps[j] for j in g] for g in s["groups"]]
        # interleave: put groups and requires in random written order
        rng.shuffle(deps)
        s["written"]=deps
        f = s["kind"](*deps, optional=[comps[j] for j in s["opt"]])(mk())
        dr.set_enabled(f, s["enabled"])
        comps.append(f)
    return spec, comps, LOG
def model(spec, comps):
    present={}; value={}
    exp={}
    for i,s in enumerate(spec):
        c=comps[i]
        if s["seeded"]:
            present[c]=True; value[c]=("seed",i); exp[i]=("seeded",); continue
        if not s["enabled"]:
            present[c]=False; exp[i]=("disabled",); continue
        requires=[d for d in s["written"] if not isinstance(d,list)]
        groups=[d for d in s["written"] if isinstance(d,list)]
        mr=[d for d in requires if not present[d]]
        mg=[g for g in groups if not any(present[d] for d in g)]
        if mr or mg:
            exp[i]=("missing",mr,mg)
            present[c] = s["kind"] is rule
            value[c]=("skipresp",i)
            continue
        flat=[]
        for d in s["written"]:
            flat.extend(d if isinstance(d,list) else [d])
        flat += [comps[j] for j in s["opt"]]
        args=tuple(value[d] if present[d] else None for d in flat)
        exp[i]=("invoked",args)
        present[c] = s["exc"] is None
        if present[c]:
            value[c]=("v",i)
    return exp,present,value
import collections; CAT=collections.Counter(); bad=0; runs=0
for it in range(int(sys.argv[2]) if len(sys.argv)>2 else 400):
    spec,comps,LOG=build(rng.randint(2,10))
    b=dr.Broker(); b.store_skips = rng.random()<0.5
    for i,s in enumerate(spec):
        if s["seeded"]: b[comps[i]]=("seed",i)
    graph={}
    for c in comps: graph.update(dr.get_dependency_graph(c))
    try:
        dr.run(graph, broker=b)
    except Exception as e:
        print("RUN RAISED", e); bad+=1; continue
    runs+=1
    exp,present,value=model(spec,comps)
    inv={}
    for i,args in LOG:
        inv.setdefault(i,[]).append(args)
    for i,s in enumerate(spec):
        c=comps[i]; e=exp[i]
        problems=[]
        if e[0]=="invoked":
            if len(inv.get(i,[]))!=1: problems.append(("count",inv.get(i)))
            else:
                got=inv[i][0]
                if s["kind"] is datasource:
                    if not (len(got)==1 and got[0] is b): problems.append(("ds-arg",got))
                else:
                    # rule values are Response
                    norm=tuple(("v",comps.index(dd)) if False else x for x in got)
                    expargs=[]
                    for x in e[1]:
                        expargs.append(x)
                    ok = len(got)==len(expargs) and all((g==x) or (isinstance(g,Response) and x is not None) for g,x in zip(got,expargs))
                    if not ok: problems.append(("args",got,expargs))
            if s["exc"] is None:
                if c not in b: problems.append("novalue")
            else:
                if c in b: problems.append("value-despite-exc")
                ex=s["exc"]
                keys=[k for k,v in b.exceptions.items() if any(x is ex for x in v)]
                if isinstance(ex,SkipComponent) and not isinstance(ex,ContentException):
                    if b.store_skips and keys!=[c]: problems.append(("skip-attr",[dr.get_name(k) for k in keys]))
                    if not b.store_skips and keys: problems.append(("skip-recorded",keys))
                elif isinstance(ex,ContentException):
                    if any(k is not c for k in keys): problems.append(("ce-attr",[dr.get_name(k) for k in keys]))
                else:
                    if keys!=[c]: problems.append(("exc-attr",type(ex).__name__, s["kind"].__name__, [dr.get_name(k) for k in keys]))
                    elif not (isinstance(b.tracebacks.get(ex),str) and "Traceback" in b.tracebacks[ex]): problems.append("no-tb")
        else:
            if i in inv: problems.append(("invoked-unexpectedly",e[0]))
            if e[0]=="missing":
                if s["kind"] is rule:
                    r=b.get(c)
                    if not (isinstance(r,Response) and r["type"]=="skip" and r.missing==(e[1],e[2])): problems.append(("rule-skip",r, e))
                    if c in b.missing_requirements: problems.append("rule-in-missing")
                else:
                    if b.missing_requirements.get(c)!=(e[1],e[2]): problems.append(("missing-mismatch",b.missing_requirements.get(c),e))
            if e[0]=="disabled" and (c in b or c in b.missing_requirements): problems.append("disabled-reported")
            if e[0]=="seeded" and b[c]!=("seed",i): problems.append("seed-overwritten")
        if problems:
            bad+=1
            CAT[(s["kind"].__name__, s["outcome"], str(problems[0][0] if isinstance(problems[0],tuple) else problems[0]))]+=1
print("runs",runs,"bad",bad)
print(dict(CAT))
